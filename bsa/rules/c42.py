"""C42 - each run's trace span ends once with that run's outcome."""

from __future__ import annotations

import ast

from .. import astutil as A
from .. import q
from ..idioms import cname, self_attr_writes, where
from ..re_model import CLS, MOD, REModel
from .c14 import key_is_msg_run

SPANS = "_run_tracing_spans"


def run(ctx):
    rm = REModel(ctx.repo)
    repo = rm.repo
    ctx.explanation = (
        "Decided: D1 the span container is keyed like the map of open runs: the span of a run is stored under the executing message's "
        "run key and ended by that key (not by position); D2 the span is started after the duplicate-key rejection and after the bundler "
        "is registered, with no raise in between, so a rejected open_run leaks no span; D3 every close_run call site of the engine is "
        "followed by ending that run's span with the status / reason used for the stop document (message handler and the cleanup loop); "
        "abort / halt end all open spans; ended spans are removed from the container so no span is ended twice. "
        "Not decided: OpenTelemetry's own behaviour; the status text recorded for aborted runs.")
    init = rm.m("__init__")
    decl = [s for s in A.walk_stmts(init.node.body) if any(A.chain(t) == f"self.{SPANS}" for t in A.targets_of(s))]
    ok = bool(decl) and isinstance(getattr(decl[0], "value", None), (ast.Dict,)) or (bool(decl) and A.norm(getattr(decl[0], "value", None)) in ("{}", "dict()"))
    ctx.ob("C42.D1-spans-keyed-by-run", cname(init, None, "span container is a mapping"), ok,
           "" if ok else "spans are kept in a positional container: with interleaved run keys close_run ends another run's span", nontrivial=True, where=where(init, init.node))
    opn = rm.handler("open_run")
    g = q.cfg(opn, q.quiet_policy(repo))
    stores = [s for s in A.walk_stmts(opn.node.body) if isinstance(s, ast.Assign) and any(isinstance(t, ast.Subscript) and A.chain(t.value) == f"self.{SPANS}" for t in s.targets)]
    ok = len(stores) == 1 and key_is_msg_run(opn, g, [t for t in stores[0].targets if isinstance(t, ast.Subscript)][0].slice, stores[0])
    ctx.ob("C42.D1-spans-keyed-by-run", cname(opn, None, "the new run's span is stored under the message's run key"), ok,
           "" if ok else "the span is not stored under the run key (appended / stored under another key)", nontrivial=True, where=where(opn, opn.node))
    starts = [s for s in A.walk_stmts(opn.node.body) if isinstance(s, ast.Assign) and A.find_calls(s, "tracer.start_span")]
    ok = len(starts) == 1
    ctx.ob("C42.D1-spans-keyed-by-run", cname(opn, None, "exactly one span started per open_run"), ok, "" if ok else f"{len(starts)} spans started", where=where(opn, opn.node))
    # D2 after validation
    guard = [s for s in opn.node.body if isinstance(s, ast.If) and " in self._run_bundlers" in A.norm(s.test) and any(isinstance(x, ast.Raise) for x in s.body)]
    reg = [s for s in opn.node.body if isinstance(s, ast.Assign) and any(isinstance(t, ast.Subscript) and A.chain(t.value) == "self._run_bundlers" for t in s.targets)]
    if starts and guard and reg and stores:
        body = opn.node.body
        i_g, i_r, i_s, i_st = body.index(guard[0]), body.index(reg[0]), body.index(starts[0]), body.index(stores[0])
        ok = i_g < i_s and i_r < i_s <= i_st
        ctx.ob("C42.D2-span-after-validation", cname(opn, None, "span started after the duplicate-key rejection and after the bundler is registered"), ok,
               "" if ok else "a rejected or failing open_run leaves a span that is never ended", nontrivial=True, where=where(opn, starts[0]))
        between = [x for s in body[i_s:i_st] for x in A.walk_stmts([s]) if isinstance(x, ast.Raise) or A.has_await(x)]
        ctx.ob("C42.D2-span-after-validation", cname(opn, None, "nothing can fail between starting and storing the span"), not between,
               "" if not between else f"`{A.head(between[0])}` lies between start_span and storing it", where=where(opn, starts[0]))
    else:
        ctx.ob("C42.D2-span-after-validation", cname(opn, None, "span started after validation"), False, "start / guard / registration statements not recognised", where=where(opn, opn.node))
    # D3 ended by key at both close sites
    end = repo.funcs.get(f"{MOD}:{CLS}._end_run_trace")
    ct = rm.m("_close_run_trace")
    ender = end if end is not None else ct
    pops = [c for c in A.calls_in(ender.node) if A.call_name(c) == f"self.{SPANS}.pop"]
    ok = len(pops) == 1 and len(pops[0].args) >= 1 and isinstance(pops[0].args[0], ast.Name) and pops[0].args[0].id in [a.arg for a in ender.node.args.args]
    ctx.ob("C42.D3-span-ended-by-key", cname(ender, None, "the span is taken out of the container by run key"), ok,
           "" if ok else "the span to end is chosen by position (pop()) rather than by the run's key", nontrivial=True, where=where(ender, ender.node))
    txt = A.norm(ender.node)
    popped = [s_.targets[0].id for s_ in A.walk_stmts(ender.node.body) if isinstance(s_, ast.Assign) and isinstance(s_.targets[0], ast.Name)
              and any(c is s_.value for c in pops)]
    sv = popped[0] if popped else "_span"
    ok = f"{sv}.set_attribute('exit_status', exit_status)" in txt and f"{sv}.set_attribute('reason', reason)" in txt and txt.count(f"{sv}.end()") == 1
    ctx.ob("C42.D3-span-ended-by-key", cname(ender, None, "status and reason recorded, span ended once"), ok, "" if ok else "attributes / end changed", where=where(ender, ender.node))
    t2 = A.norm(ct.node)
    # the arguments of the _end_run_trace call, evaluated for the four cases of the message carrying / not carrying the two keywords
    ok = "msg.run" in t2
    ends_ = [c for c in A.calls_in(ct.node) if A.call_name(c) == "self._end_run_trace"]
    if ok and len(ends_) == 1 and len(ends_[0].args) == 3:
        for has_s in (True, False):
            for has_r in (True, False):
                truth = {"'exit_status' in msg.kwargs": has_s, "'exit_status' not in msg.kwargs": not has_s, "'reason' in msg.kwargs": has_r, "'reason' not in msg.kwargs": not has_r}
                body_ = q.specialise(A.body(ct.node), truth)
                flat_ = [x for x in A.walk_stmts(body_)]
                call_st = next((x for x in flat_ if any(A.call_name(c) == "self._end_run_trace" for c in A.calls_in(x))), None)
                if call_st is None:
                    ok = False
                    continue
                c_ = [c for c in A.calls_in(call_st) if A.call_name(c) == "self._end_run_trace"][0]
                present = {}
                if has_s:
                    present["exit_status"] = q._Sym("msg.exit_status")
                if has_r:
                    present["reason"] = q._Sym("msg.reason")
                got = []
                for a_, dflt in ((c_.args[1], "self._exit_status"), (c_.args[2], "self._reason")):
                    v_ = q.straight_line_value(flat_[:flat_.index(call_st)], a_)

                    class _Dflt(ast.NodeTransformer):
                        def visit_Attribute(self, n):
                            return ast.Constant(value="DEFAULT") if A.norm(n) == dflt else self.generic_visit(n)
                    try:
                        got.append(q.eval_lookup(_Dflt().visit(v_), "msg.kwargs", present))
                    except (ValueError, KeyError):
                        got.append("?")
                want = [present.get("exit_status", "DEFAULT"), present.get("reason", "DEFAULT")]
                ok = ok and got == want and A.norm(c_.args[0]) == "msg.run"
    else:
        ok = False
    ctx.ob("C42.D3-span-ended-by-key", cname(ct, None, "message close: the message's own status / reason / run key"), ok, "" if ok else "another run's status / key is used", where=where(ct, ct.node))
    h = rm.handler("close_run")
    closes = [s for s in A.walk_stmts(h.node.body) if not isinstance(s, (ast.Try, ast.If, ast.With, ast.For, ast.While)) and __import__("bsa.bidioms", fromlist=["x"]).bundler_method_calls(s, "close_run")]
    traces = [s for s in A.walk_stmts(h.node.body) if not isinstance(s, (ast.Try, ast.If, ast.With, ast.For, ast.While)) and A.find_calls(s, "self._close_run_trace")]
    ok = len(closes) == 1 and len(traces) == 1 and A.norm(traces[0]) == "self._close_run_trace(msg)"
    ctx.ob("C42.D3-span-ended-by-key", cname(h, None, "close_run handler ends the span of the closed run, with the message"), ok,
           "" if ok else "close / span-end statements not found once each", where=where(h, h.node))
    if ok:
        g = q.cfg(h, rm.policy())
        c_nodes, t_nodes = set(g.nodes_of(closes[0])), set(g.nodes_of(traces[0]))
        # (i) the span is ended only when the bundler really closed the run: not reachable through an exceptional exit of close_run
        exc_succ = [v for u in c_nodes for v, label in g.succ[u] if isinstance(label, tuple) and label[0] in ("exc", "reraise")]
        seen = g.reachable(exc_succ) if exc_succ else {}
        bad = [t for t in t_nodes if t in seen]
        ctx.ob("C42.D3-span-ended-by-key", cname(h, None, "the span is ended only after close_run succeeded"), not bad,
               "" if not bad else "the span is ended with the message's status although close_run failed and the run is still open: the engine's cleanup "
               "then closes the run with another status and finds no span to end", nontrivial=True,
               witness=g.path_to(seen, bad[0])[-6:] if bad else None, where=where(h, traces[0]))
        # (ii) and it IS ended on the normal path
        norm_succ = [v for u in c_nodes for v, label in g.succ[u] if not isinstance(label, tuple)]
        seen_n = g.reachable(norm_succ, avoid=lambda n: n.id in t_nodes)
        esc = [p for p, label in g.pred[g.exit] if p in seen_n]
        ctx.ob("C42.D3-span-ended-by-key", cname(h, None, "every normal return after close_run passes the span end"), not esc,
               "" if not esc else "span not ended after close_run", nontrivial=True, where=where(h, closes[0]))
    # cleanup loop in _run
    loops = [s for s in A.walk_stmts(rm.outer_try.finalbody) if isinstance(s, ast.For) and A.find_calls(s, "close_run")]
    ok = False
    if loops:
        lp = loops[0]
        keyv = A.norm(lp.target.elts[0]) if isinstance(lp.target, ast.Tuple) else None
        ends = [c for c in A.calls_in(lp) if A.call_name(c) in ("self._end_run_trace", "self._close_run_trace")]
        ok = bool(ends) and keyv is not None and A.norm(ends[0].args[0]) == keyv and "self._exit_status" in A.norm(ends[0]) and "exit_reason" in A.norm(ends[0])
    ctx.ob("C42.D3-span-ended-by-key", cname(rm.run, None, "cleanup: a run closed by the engine gets its span ended with the engine's status, by its key"), ok,
           "" if ok else "runs closed by the engine's cleanup never end their span (or end another run's)", nontrivial=True, where=where(rm.run, loops[0] if loops else rm.run.node))
    # abort / halt end every open span, removing them
    d = rm.m("_destroy_open_run_tracing_spans")
    t = A.norm(d.node)
    # a while loop that takes every span out of the container (directly or through a local alias of it) and ends it
    gd = q.cfg(d, q.quiet_policy(repo))
    ok = False
    for wl in [s_ for s_ in d.node.body if isinstance(s_, ast.While)]:
        for st_ in wl.body:
            val_ = st_.value if isinstance(st_, ast.Assign) else None
            picked = None  # `popitem()[1]` picks the span out of the (key, span) pair
            if isinstance(val_, ast.Subscript) and isinstance(val_.value, ast.Call) and A.norm(val_.slice) == "1":
                picked, val_ = 1, val_.value
            if isinstance(st_, ast.Assign) and isinstance(val_, ast.Call) and isinstance(val_.func, ast.Attribute) and val_.func.attr in ("popitem", "pop") \
                    and gd.nodes_of(st_) and A.norm(q.expand_at(gd, gd.nodes_of(st_)[0], val_.func.value)) == f"self.{SPANS}":
                tg = st_.targets[0]
                span_var = tg.elts[1].id if isinstance(tg, ast.Tuple) and len(tg.elts) == 2 and isinstance(tg.elts[1], ast.Name) and picked is None else \
                    (tg.id if isinstance(tg, ast.Name) and (picked == 1 or val_.func.attr == "pop") else None)
                if span_var and sum(1 for x in wl.body if A.norm(x) == f"{span_var}.end()") == 1:
                    ok = True
    ctx.ob("C42.D3-span-ended-by-key", cname(d, None, "abort / halt end and remove every open span"), ok, "" if ok else "spans stay in the container after being ended (ended twice later)", where=where(d, d.node))
    for nm in ("_abort_coro", "_halt_coro"):
        f = rm.m(nm)
        ok = any(A.norm(s) == "self._destroy_open_run_tracing_spans()" for s in f.node.body)
        ctx.ob("C42.D3-span-ended-by-key", cname(f, None, "ends the open spans"), ok, "" if ok else "open spans leak on abort / halt", where=where(f, f.node))
    # writers of the container
    owners = {f"{CLS}.__init__": "created", f"{CLS}._open_run": "store under the run key", f"{CLS}._close_run_trace": "end by key",
              f"{CLS}._end_run_trace": "end by key", f"{CLS}._destroy_open_run_tracing_spans": "abort / halt"}
    q.check_writers(ctx, "C42.D1-span-container-writers", repo, SPANS, owners, modules=[MOD], min_instances=3)


CLAIM = {
    "text": "Decides that run spans are stored and ended by the run's key (not by position), that a span is started only after the duplicate-key "
            "rejection and the registration of the bundler with nothing fallible before it is stored, that both close sites (message handler and "
            "the engine's cleanup loop) end the closed run's span with that run's status, that abort / halt end and remove all open spans, and "
            "that the container has closed-world writers. OpenTelemetry's own behaviour is not decided.",
    "technique": "keyed acquire/release pairing with reaching definitions of the key; CFG must-pass (span ended only after a successful close); case evaluation of the message's status / reason lookup; ownership table",
}

RE = "run_engine.py"
MUTANTS = [
    ("span ended in a finally around close_run (seed C42-a)", [("run_engine.py", "        ret = await current_run.close_run(msg)\n        del self._run_bundlers[run_key]\n        self._close_run_trace(msg)", "        try:\n            ret = await current_run.close_run(msg)\n        finally:\n            self._close_run_trace(msg)\n        del self._run_bundlers[run_key]")], "C42.D3"),
    ("span ended before the run is closed", [("run_engine.py", "        ret = await current_run.close_run(msg)\n        del self._run_bundlers[run_key]\n        self._close_run_trace(msg)", "        self._close_run_trace(msg)\n        ret = await current_run.close_run(msg)\n        del self._run_bundlers[run_key]")], "C42.D3"),
    ("span stored under a constant key", [(RE, "        self._run_tracing_spans[run_key] = _span", "        self._run_tracing_spans[None] = _span")], "C42.D1"),
    ("span started before the duplicate check",
     [(RE, "        # one span per registered run, keyed like the run itself\n        _span = tracer.start_span(f\"{_SPAN_NAME_PREFIX} run\")\n        _set_span_msg_attributes(_span, msg)\n        self._run_tracing_spans[run_key] = _span\n", ""),
      (RE, "        # TODO extract this from the Msg\n        run_key = msg.run\n        if run_key in self._run_bundlers:\n            raise IllegalMessageSequence(\"A 'close_run' message was not received before the 'open_run' message\")\n\n        # Run scan_id",
       "        # TODO extract this from the Msg\n        run_key = msg.run\n        _span = tracer.start_span(f\"{_SPAN_NAME_PREFIX} run\")\n        _set_span_msg_attributes(_span, msg)\n        self._run_tracing_spans[run_key] = _span\n        if run_key in self._run_bundlers:\n            raise IllegalMessageSequence(\"A 'close_run' message was not received before the 'open_run' message\")\n\n        # Run scan_id")], "C42.D2"),
    ("most recent span ended instead of the run's", [(RE, "        _span = self._run_tracing_spans.pop(run_key, None)", "        _span = self._run_tracing_spans.popitem()[1] if self._run_tracing_spans else None")], "C42.D3"),
    ("cleanup does not end spans (revert of part of F-5)", [(RE, "                if key in self._run_tracing_spans:\n                    self._end_run_trace(key, self._exit_status, exit_reason)\n", "")], "C42.D3"),
    ("halt leaves spans open", [(RE, "        print(\"Halting: skipping cleanup and marking exit_status as 'abort'...\")\n        self._destroy_open_run_tracing_spans()", "        print(\"Halting: skipping cleanup and marking exit_status as 'abort'...\")")], "C42.D3"),
    ("span ended with the engine's status instead of the message's", [(RE, "        exit_status = msg.kwargs.get(\"exit_status\", self._exit_status)\n        reason = msg.kwargs.get(\"reason\", self._reason)\n        self._end_run_trace", "        exit_status = self._exit_status\n        reason = msg.kwargs.get(\"reason\", self._reason)\n        self._end_run_trace")], "C42.D3"),
    ("spans cleared at call start without ending", [(RE, "        self._metadata_per_call.clear()\n        self._staged.clear()", "        self._metadata_per_call.clear()\n        self._run_tracing_spans.clear()\n        self._staged.clear()")], "C42.D1"),
]
BENIGN = []
