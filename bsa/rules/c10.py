"""C10 - interrupting a non-resumable section aborts cleanly."""

from __future__ import annotations

import ast

from .. import astutil as A
from .. import q
from ..idioms import cname, where
from ..re_model import CLS, MOD, REModel
from .. import typestate as T
from . import c02


def run(ctx):
    rm = REModel(ctx.repo)
    # the FailedPause stashed for the plan and a status failure pending in self._exception are both handed over, one per iteration (seed C10-c)
    from . import c12

    q.relabelled(ctx, "C12.D2", "C10.D1", c12.d2_poll_every_iteration, rm)
    repo = rm.repo
    run_f = rm.run
    ctx.explanation = (
        "Decided: D1 in the message loop the not-resumable test for states pausing/suspending precedes the pause block; its "
        "branch stashes FailedPause, sets the run permit and moves to 'aborting' (typestate: the pause block and the suspension "
        "continuation are reached with a resumable plan only); D2 request_suspend stores FailedPause and moves to 'aborting' when "
        "no checkpoint is in effect; D3 None is assigned to the message cache only by clear_checkpoint and 'resumable' is exactly "
        "'cache is not None'; D4 FailedPause is recorded as exit_status 'abort' (ladder of C02); D5 only a checkpoint re-arms resumability; D6 the "
        "tear-down is not started with a cancellation still pending (fails on today's tree for pauses requested from inside the task: F-15). "
        "Cleanup / closing of runs: C01.D1, C06.D1.")
    # the typestate fixpoint (and C10 as a whole) assumes that a call starts with a checkpointable plan
    q.per_call_reset(ctx, rm, "C10.D3-call-starts-resumable", ["_msg_cache"])
    # D1 shape of the branch
    branch = None
    for s in rm.loop.body:
        if isinstance(s, ast.If) and "self._state in" in A.norm(s.test) and "pausing" in A.norm(s.test) and "suspending" in A.norm(s.test):
            for x in s.body:
                if isinstance(x, ast.If) and A.norm(x.test) == "not self.resumable":
                    branch = x
    if branch is None:
        ctx.ob("C10.D1-not-resumable-branch", cname(run_f, None, "not-resumable branch for pausing/suspending"), False,
               "no `if not self.resumable` check for both pausing and suspending precedes the pause block", where=where(run_f, rm.loop))
    else:
        body_txt = [A.norm(x) for x in branch.body]
        ok_stash = any(t.startswith("stashed_exception = FailedPause(") for t in body_txt)
        ok_permit = any(t == "self._run_permit.set()" for t in body_txt)
        ok_state = any(rm.is_state_write(x, "aborting") for x in branch.body)
        ok_cont = isinstance(branch.body[-1], ast.Continue)
        for ok, what, why in ((ok_stash, "stashes FailedPause", "the plan is not told that the pause failed"),
                              (ok_permit, "sets the run permit", "the loop would enter the pause block"),
                              (ok_state, "moves to 'aborting'", "the engine stays in pausing/suspending"),
                              (ok_cont, "continues with the tear-down", "falls through into the pause block")):
            ctx.ob("C10.D1-not-resumable-branch", cname(run_f, None, f"not-resumable branch {what}"), ok, "" if ok else why, where=where(run_f, branch))
        # the branch precedes the pause block and the suspending->running reset in the loop body
        seq = rm.loop.body
        i_branch = next(i for i, s in enumerate(seq) if isinstance(s, ast.If) and branch in list(A.walk_stmts(s.body)))
        i_pause = seq.index(rm.pause_block)
        ctx.ob("C10.D1-not-resumable-branch", cname(run_f, None, "checked before the pause block"), i_branch < i_pause,
               "" if i_branch < i_pause else "the pause block can be entered before resumability is checked", where=where(run_f, branch))
    # typestate: pause block / suspending continuation only with a resumable plan
    eng = T.Engine(rm)
    atomic = all(not any(isinstance(n, ast.Await) for n in A.walk_local(f.node)) for f in eng.req_funcs.values())
    if atomic:
        eng.run_main()
        pre = set()
        for nid in eng.cfg.nodes_of(rm.pause_block):
            pre |= {st.g for st in eng.IN.get(nid, ())}
        entering = {x for x in pre if not x.permit}
        ok = bool(entering) and all(x.resumable for x in entering)
        ctx.ob("C10.D1-pause-block-needs-checkpoint", cname(run_f, None, "pause block entered only with a checkpoint in effect"), ok,
               f"tuples entering the pause block: {T.fmt(entering)}", nontrivial=True, where=where(run_f, rm.pause_block))
        susp = [s for s in rm.loop.body if isinstance(s, ast.If) and A.norm(s.test) == "self._state == 'suspending'"]
        ctx.require(susp, "anchor vanished: `if self._state == 'suspending'` in the loop")
        w = [x for x in susp[0].body if rm.is_state_write(x, "running")]
        ctx.require(w, "anchor vanished: suspending -> running")
        pre = eng.pre_states(w[0])
        ok = bool(pre) and all(x.resumable and x.state == "suspending" for x in pre)
        ctx.ob("C10.D1-pause-block-needs-checkpoint", cname(run_f, w[0]), ok,
               f"pre-tuples {T.fmt(pre)}", nontrivial=True, where=where(run_f, w[0]))
        paused_w = [s for s, lit in rm.state_writes(run_f.node) if lit == "paused"]
        for s in paused_w:
            pre = eng.pre_states(s)
            ok = bool(pre) and all(x.resumable for x in pre)
            ctx.ob("C10.D1-pause-block-needs-checkpoint", cname(run_f, s), ok, f"pre-tuples {T.fmt(pre)}", nontrivial=True, where=where(run_f, s))
        # D6: 'its cleanup code runs': when the failed pause is turned into FailedPause / 'aborting', no cancellation of the task may
        # still be pending - it would be delivered at the first await of the plan's cleanup, be mapped to RequestAbort by the
        # CancelledError handler and be thrown into the cleanup, truncating it
        if branch is not None:
            for x in branch.body:
                if rm.is_state_write(x, "aborting"):
                    pre = eng.pre_states(x)
                    pend = {t for t in pre if t.cancel}
                    ctx.ob("C10.D6-teardown-not-hit-by-stale-cancel", f"{cname(run_f, x)} [cancellation still pending]", not pend,
                           "" if not pend else "reached with a cancellation of the _run task still pending (the pause was requested from inside the task: "
                           f"the 'pause' command issued by the plan itself): tuples {T.fmt(pend)}. The stale CancelledError lands in the plan's cleanup and "
                           "RequestAbort is thrown into it after its first message", nontrivial=True, where=where(run_f, x))
        # D5: between clear_checkpoint and the next checkpoint nothing else may re-arm resumability
        INTERNAL = {"_start_suspender": "internal: only pushed by a suspension that found a checkpoint", "_resume_from_suspender": "internal",
                    "checkpoint": "the statement's 'next checkpoint'"}
        seen = set()
        for cmd, h in eng.handlers.items():
            if h.key in seen or cmd in INTERNAL:
                continue
            seen.add(h.key)
            if not eng.touches(h):
                continue
            outs = eng.summary(h, T.G("running", True, False, False), None)
            rearm = sorted({k if isinstance(k, str) else k[1] for k, g2 in outs if g2.resumable})
            ctx.ob("C10.D5-only-checkpoint-rearms", cname(h, None, f"handler of {cmd!r} keeps a cleared checkpoint cleared"), not rearm,
                   "" if not rearm else f"executing {cmd!r} after clear_checkpoint makes the plan resumable again without a checkpoint: a later pause is "
                   "accepted and the resume replays from an arbitrary point", nontrivial=True, where=where(h, h.node))
        st = repo.funcs.get(f"{MOD}:{CLS}.rewindable.setter")
        if st is not None:
            outs = eng.summary(st, T.G("running", True, False, False), None)
            rearm = [1 for k, g2 in outs if g2.resumable]
            ctx.ob("C10.D5-only-checkpoint-rearms", cname(st, None, "assigning RE.rewindable keeps a cleared checkpoint cleared"), not rearm,
                   "" if not rearm else "toggling rewindability after clear_checkpoint re-arms resumability", nontrivial=True, where=where(st, st.node))
    else:
        ctx.ob("C10.D1-pause-block-needs-checkpoint", cname(run_f, None, "request coroutines atomic"), False,
               "a request coroutine contains an await; the thread-modular model does not apply")
    # D2 request_suspend
    rs = repo.func(MOD, f"{CLS}.request_suspend._request_suspend")
    br = [s for s in rs.node.body if isinstance(s, ast.If) and A.norm(s.test) == "not self.resumable"]
    ctx.require(br, "anchor vanished: `if not self.resumable` in _request_suspend")
    b = br[0]
    txt = [A.norm(x) for x in A.walk_stmts(b.body)]
    ok = any("self._exception = FailedPause()" in t for t in txt) and any(rm.is_state_write(x, "aborting") for x in A.walk_stmts(b.body)) \
        and any(t == "self._interrupted = True" for t in txt)
    ctx.ob("C10.D2-suspend-without-checkpoint", cname(rs, None, "stores FailedPause, marks interrupted, moves to 'aborting'"), ok,
           "" if ok else "a suspension without a checkpoint no longer turns into an abort", where=where(rs, b))
    seq = rs.node.body
    i_b = seq.index(b)
    i_push = next((i for i, s in enumerate(seq) if A.find_calls(s, "self._plan_stack.append")), None)
    ok = i_push is not None and i_b < i_push
    ctx.ob("C10.D2-suspend-without-checkpoint", cname(rs, None, "decided before the suspender plan is pushed"), ok,
           "" if ok else "the suspender plan is pushed before resumability is checked", where=where(rs, b))
    # D3
    none_writers = []
    for f, s, kind in q.attr_writers(repo, "_msg_cache"):
        v = getattr(s, "value", None)
        if kind == "assign" and isinstance(v, ast.Constant) and v.value is None:
            none_writers.append((f, s))
            ok = f.qualname == f"{CLS}._clear_checkpoint"
            ctx.ob("C10.D3-none-only-by-clear-checkpoint", cname(f, s), ok,
                   "" if ok else "the message cache is discarded outside clear_checkpoint", where=where(f, s))
    res = repo.func(MOD, f"{CLS}.resumable")
    ok = any(isinstance(s, ast.Return) and A.norm(s.value) == "self._msg_cache is not None" for s in res.node.body)
    ctx.ob("C10.D3-resumable-definition", cname(res, None, "return self._msg_cache is not None"), ok,
           "" if ok else "'resumable' no longer means 'a message cache exists'", where=where(res, res.node))
    cc = rm.handler("clear_checkpoint")
    ok = any(isinstance(s, ast.Assign) and A.chain(s.targets[0]) == "self._msg_cache" and isinstance(s.value, ast.Constant) and s.value.value is None
             for s in cc.node.body)
    ctx.ob("C10.D3-resumable-definition", cname(cc, None, "self._msg_cache = None"), ok,
           "" if ok else "clear_checkpoint no longer discards the message cache", where=where(cc, cc.node))
    # D4: FailedPause -> abort
    got, by = None, None
    for classes, status, h in c02.ladder(rm):
        m, _ = rm.hier.match("FailedPause", classes)
        if m == "yes":
            got, by = status, h
            break
    ctx.ob("C10.D4-failed-pause-is-abort", f"{run_f.key}:outer except ladder[FailedPause]", got == "abort",
           "" if got == "abort" else f"FailedPause ends in `{A.head(by) if by is not None else 'no handler'}` and is recorded as {got!r}",
           nontrivial=True, where=where(run_f, by if by is not None else rm.outer_try))

CLAIM = {'text': "Decides that a pause or suspension without a checkpoint cannot reach the pause block or the suspension continuation (typestate: those nodes are reached with resumable tuples only), that the not-resumable branch stashes FailedPause, sets the permit and moves to 'aborting', that request_suspend does the same before pushing the suspender plan, that the message cache is discarded only by clear_checkpoint and 'resumable' means 'cache exists', that the pending status failure is taken and cleared on every loop iteration, and that FailedPause is recorded as 'abort'. Cleanup and closing of runs are C01/C06 clauses.", 'technique': 'typestate fixpoint query; branch shape; ownership; table agreement'}


RE = "run_engine.py"
MUTANTS = [
    ("not-resumable branch deleted",
     [(RE, "                    if not self.resumable:\n                        self._run_permit.set()", "                    if False:\n                        self._run_permit.set()")], "C10.D1"),
    ("not-resumable branch forgets the permit",
     [(RE, "                        self._run_permit.set()\n                        stashed_exception = FailedPause()", "                        stashed_exception = FailedPause()")], "C10.D1"),
    ("clear_checkpoint keeps an empty cache",
     [(RE, "        # clear message cache\n        self._msg_cache = None", "        # clear message cache\n        self._msg_cache = deque()")], "C10.D3"),
    ("resumable always true",
     [(RE, "        return self._msg_cache is not None", "        return True")], "C10.D3"),
    ("suspend without checkpoint proceeds",
     [(RE, "                was_paused = self._state == \"paused\"\n                self._state = \"aborting\"\n                if not was_paused:\n                    self._task.cancel()\n            if justification", "            if justification")], "C10.D2"),
    ("FailedPause recorded as failure",
     [(RE, "        except (FailedPause, RequestAbort, asyncio.CancelledError, PlanHalt):", "        except (RequestAbort, asyncio.CancelledError, PlanHalt):")], "C10.D4"),
    ("a second place discards the cache",
     [(RE, "        self._rewindable_flag = bool(v)\n", "        self._rewindable_flag = bool(v)\n        if not v:\n            self._msg_cache = None\n")], "C10.D3"),
    ("pause block checked before resumability",
     [(RE, "                if self._state in (\"pausing\", \"suspending\"):\n                    if not self.resumable:", "                if self._state in (\"suspending\",):\n                    if not self.resumable:")], "C10.D1"),
]
BENIGN = [
    ("branch statements reordered",
     [(RE, "                        self._run_permit.set()\n                        stashed_exception = FailedPause()\n", "                        stashed_exception = FailedPause()\n                        self._run_permit.set()\n")]),
]
