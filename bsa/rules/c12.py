"""C12 - device errors reach the plan at the message that caused them."""

from __future__ import annotations

import ast

from .. import astutil as A
from .. import q
from ..idioms import cname, where
from ..re_model import CLS, MOD, REModel
from . import c02


def exec_try(rm: REModel):
    """the try statement whose body is `new_response = await coro(msg)`"""
    for s in A.walk_stmts(rm.inner_try.body):
        if isinstance(s, ast.Try) and any(isinstance(x, ast.Assign) and "await coro(msg)" in A.norm(x) for x in s.body):
            return s
    return None


def d1_error_discipline(ctx, rm: REModel):
    run = rm.run
    t = exec_try(rm)
    if t is None:
        ctx.ob("C12.D1-command-errors-stored", cname(run, None, "try around `await coro(msg)`"), False,
               "the command execution is no longer wrapped: a device error leaves the message loop instead of reaching the plan", where=where(run, rm.inner_try))
        return
    hs = t.handlers
    # order: CancelledError first (re-raised), then Exception stored in new_response
    names = [A.norm(h.type) if h.type is not None else "BaseException" for h in hs]
    i_c = next((i for i, n in enumerate(names) if "CancelledError" in n), None)
    i_e = next((i for i, n in enumerate(names) if n in ("Exception", "BaseException")), None)
    ok = i_c is not None and len(hs[i_c].body) == 1 and isinstance(hs[i_c].body[0], ast.Raise) and hs[i_c].body[0].exc is None
    ctx.ob("C12.D1-command-errors-stored", cname(run, None, "cancellation of a command is re-raised, not sent to the plan"), ok,
           "" if ok else "a CancelledError from a command is swallowed / handed to the plan", where=where(run, t))
    ok = False
    if i_e is not None and hs[i_e].name:
        body = hs[i_e].body
        ok = any(isinstance(s, ast.Assign) and A.chain(s.targets[0]) == "new_response" and A.chain(s.value) == hs[i_e].name for s in body) \
            and (isinstance(body[-1], ast.Continue) or q.in_tail_position(rm.loop, body[-1])) and not any(isinstance(s, ast.Raise) for s in body)
    ctx.ob("C12.D1-command-errors-stored", cname(run, None, "any other exception of a command becomes the response of that message"), ok,
           "" if ok else "an exception raised by a device operation is not stored as the response of the message that caused it", nontrivial=True, where=where(run, t))
    if i_c is not None and i_e is not None:
        ctx.ob("C12.D1-command-errors-stored", cname(run, None, "handler order"), i_c < i_e or names[i_e] == "Exception",
               "" if (i_c < i_e or names[i_e] == "Exception") else "the generic handler shadows the CancelledError handler", where=where(run, t))
    # unknown command -> InvalidCommand stored
    from ..idioms import prev_siblings, sentinel_lookup
    prevs_ = prev_siblings(run.node)
    ifs = [s for s in A.walk_stmts(rm.inner_try.body) if isinstance(s, ast.If) and ("self._command_registry.get(msg.command" in A.norm(s.test)
                                                                                    or A.norm(s.test) == "msg.command not in self._command_registry"
                                                                                    or ((sentinel_lookup(s.test, prevs_.get(s)) or (None, None, None, None))[1] == "self._command_registry"
                                                                                        and sentinel_lookup(s.test, prevs_.get(s))[3] == "absent"))]
    ok = bool(ifs) and any(isinstance(x, ast.Assign) and A.chain(x.targets[0]) == "new_response" and "InvalidCommand(msg.command)" in A.norm(x.value) for x in ifs[0].body) \
        and isinstance(ifs[0].body[-1], ast.Continue)
    ctx.ob("C12.D1-command-errors-stored", cname(run, None, "unknown command -> InvalidCommand as response"), ok, "" if ok else "an unknown command no longer surfaces in the plan as InvalidCommand", where=where(run, rm.inner_try))
    # a response that is an exception is thrown, not sent
    tests = [s for s in A.walk_stmts(rm.inner_try.body) if isinstance(s, ast.If) and "isinstance(resp, Exception)" in A.norm(s.test)]
    ok = bool(tests) and any("self._plan_stack[-1].throw(stashed_exception or resp)" in A.norm(x) for x in A.walk_stmts(tests[0].body))
    ctx.ob("C12.D1-exception-response-thrown", cname(run, None, "an exception response is thrown at the plan's current yield"), ok,
           "" if ok else "a stored exception is sent into the plan as a value instead of being thrown", where=where(run, rm.inner_try))
    ok = bool(tests) and "stashed_exception is not None" in A.norm(tests[0].test)
    ctx.ob("C12.D1-exception-response-thrown", cname(run, None, "a stashed exception takes the throw branch"), ok, "" if ok else "stashed exceptions are not thrown", where=where(run, rm.inner_try))


def d2_poll_every_iteration(ctx, rm: REModel):
    run = rm.run
    g = q.cfg(run, q.quiet_policy(rm.repo))
    # the poll: under the state lock self._exception is read; a non-None value ends up in stashed_exception and the attribute is cleared
    polls = [s for s in A.walk_stmts(rm.inner_try.body) if isinstance(s, ast.With) and "_state_lock" in A.norm(s.items[0].context_expr)
             and any(isinstance(n, ast.Attribute) and A.chain(n) == "self._exception" and isinstance(n.ctx, ast.Load) for n in ast.walk(s))]
    if not polls:
        ctx.ob("C12.D2-status-failure-polled", cname(run, None, "poll of self._exception under the state lock"), False,
               "failed statuses are no longer picked up by the message loop", where=where(run, rm.inner_try))
        return
    poll = polls[0]
    cleared = any(isinstance(x, ast.Assign) and A.chain(x.targets[0]) == "self._exception" and isinstance(x.value, ast.Constant) and x.value.value is None
                  for x in A.walk_stmts(poll.body))
    takes = [x for x in A.walk_stmts(rm.inner_try.body) if isinstance(x, ast.Assign) and any(isinstance(t, ast.Name) and t.id == "stashed_exception" for t in x.targets)
             and A.norm(q.expand(run.node, x.value)) == "self._exception"]
    pmr = A.parents(run.node)
    def guarded_not_none(st):
        n = st
        while n in pmr:
            n = pmr[n]
            if isinstance(n, ast.If) and A.norm(q.expand(run.node, n.test)) in ("self._exception is not None", "self._exception"):
                return True
        return False
    ok = cleared and len(takes) == 1 and guarded_not_none(takes[0])
    ctx.ob("C12.D2-status-failure-polled", cname(run, None, "the pending failure is taken and cleared"), ok,
           "" if ok else "the pending failure is not moved into stashed_exception / not cleared (it would be thrown repeatedly or never)", where=where(run, poll))
    pulls = [s for s in A.walk_stmts(rm.inner_try.body) if not isinstance(s, (ast.Try, ast.If, ast.With)) and
             any(isinstance(c.func, ast.Attribute) and c.func.attr in ("send", "throw") and "self._plan_stack[-1]" in A.norm(c.func.value) for c in A.calls_in(s))]
    ctx.require(pulls, "anchor vanished: send/throw into the plan in _run")
    for s in pulls:
        w = q.dominated(g, s, lambda n: n.stmt is poll and n.kind == "with_enter")
        ctx.ob("C12.D2-status-failure-polled", cname(run, s), w is None,
               "" if w is None else "the plan can be advanced without first checking for a failed status: the failure surfaces at a later, unrelated message",
               nontrivial=True, witness=w[-6:] if w else None, where=where(run, s))
    # the poll is inside the loop body (every iteration)
    in_loop = any(poll is x for x in A.walk_stmts(rm.loop.body))
    ctx.ob("C12.D2-status-failure-polled", cname(run, None, "polled in every iteration"), in_loop, "" if in_loop else "poll hoisted out of the loop", where=where(run, poll))


def d3_wait_returns_on_first_failure(ctx, rm: REModel):
    w = rm.handler("wait")
    inner = rm.repo.func(MOD, f"{CLS}._wait.wait_for_first_exception")
    msgs = [c for c in A.calls_in(inner.node) if A.call_name(c) == "Msg" and c.args and A.const_str(c.args[0]) == "wait_for"]
    ok = bool(msgs) and A.norm(A.kw(msgs[0], "return_when")) == "asyncio.FIRST_EXCEPTION"
    ctx.ob("C12.D3-wait-ends-at-first-failure", cname(inner, None, "return_when=asyncio.FIRST_EXCEPTION"), ok,
           "" if ok else "a failed status is noticed only after every other status of the group finished", where=where(inner, inner.node))
    wf = rm.handler("wait_for")
    calls = A.find_calls(wf.node, "asyncio.wait")
    ok = bool(calls) and any(k.arg is None and A.norm(k.value) == "msg.kwargs" for k in calls[0].keywords)
    ctx.ob("C12.D3-wait-ends-at-first-failure", cname(wf, None, "asyncio.wait(..., **msg.kwargs)"), ok, "" if ok else "return_when is not forwarded to asyncio.wait", where=where(wf, wf.node))
    ok = bool(A.find_calls(w.node, "self._groups.pop")) and bool(A.find_calls(w.node, "asyncio.create_task"))
    ctx.ob("C12.D3-wait-ends-at-first-failure", cname(w, None, "waits on the futures of the named group"), ok, "" if ok else "wait no longer waits on the group's futures", where=where(w, w.node))
    # with futures pending in the group, no normal return before the wait on them has been awaited
    pops = [x for x in A.walk_stmts(w.node.body) if isinstance(x, (ast.Assign, ast.AnnAssign)) and x.value is not None and A.find_calls(x.value, "self._groups.pop")
            and isinstance(A.targets_of(x)[0], ast.Name)]
    F = A.targets_of(pops[0])[0].id if pops else None
    g = q.cfg(w, q.quiet_policy(rm.repo))

    def awaits_the_group(n):
        if n.stmt is None or n.kind != "stmt":
            return False
        for aw in [x for x in ast.walk(n.stmt) if isinstance(x, ast.Await)]:
            v = A.norm(q.expand_at(g, n.id, aw.value, keep=(F,)))
            if F is not None and ("wait_for_first_exception(%s)" % F in v or ("self._wait_for(" in v and F in v)):
                return True
        return False

    tests = [i for i, n in enumerate(g.nodes) if n.kind == "test" and isinstance(n.stmt, ast.If) and F is not None
             and A.norm(n.stmt.test) in (F, f"len({F}) > 0", f"len({F})", f"{F} != set()", f"not {F}", f"len({F}) == 0", f"{F} == set()")]
    ctx.require(tests, "anchor vanished: the branch of RunEngine._wait on `the popped group has pending futures`")
    for t in tests:
        neg = A.norm(g.nodes[t].stmt.test) in (f"not {F}", f"len({F}) == 0", f"{F} == set()")
        starts = [v for v, lab in g.succ[t] if lab == ("F" if neg else "T")]
        wit = g.must_pass(starts, awaits_the_group, exits=[g.exit])
        ctx.ob("C12.D3-wait-awaits-the-group", cname(w, None, "pending futures: every normal return has awaited the wait on the group"), wit is None,
               "" if wit is None else "wait can return while statuses of the group are pending without having awaited them: a failure already recorded on (or about to "
               "reach) one of them is dropped with the group instead of being raised at the wait", nontrivial=True, witness=wit[-6:] if wit else None, where=where(w, g.nodes[t].stmt))
    # every status-returning command registers the status with its group
    for cmd in ("set", "trigger", "kickoff", "complete", "prepare", "stage", "unstage"):
        h = rm.handler(cmd)
        ok = bool(A.find_calls(h.node, "self._add_status_to_group"))
        ctx.ob("C12.D3-status-registered", cname(h, None, f"status of {cmd!r} added to its group"), ok,
               "" if ok else f"a failing {cmd} status would never reach the plan", where=where(h, h.node))
    a = rm.m("_add_status_to_group")
    txt = A.norm(a.node)
    ok = "self._loop.call_soon_threadsafe(self._status_object_completed, status_object, fut, pardon_failures)" in txt and "status_object.add_callback(done_callback)" in txt \
        and "self._groups[group].add(lambda: fut)" in txt
    ctx.ob("C12.D3-status-registered", cname(a, None, "completion callback -> _status_object_completed; future stored in the group"), ok,
           "" if ok else "the completion of a status no longer reaches _status_object_completed / the group", where=where(a, a.node))


def d3_pending_statuses_not_forgotten(ctx, rm: REModel):
    """`wait` finds the statuses it has to wait for in self._groups; a status started with a group and not yet waited for must
    stay there until the plan waits (or the call starts over).  Closed world: who removes entries from _groups / _status_objs."""
    repo = rm.repo
    rule = "C12.D3-pending-statuses-not-forgotten"
    # direct erasers: .clear() / .pop() / del on the two containers
    erasers = {}
    for f in repo.funcs_in(MOD):
        for c in A.calls_in(f.node):
            if isinstance(c.func, ast.Attribute) and c.func.attr in ("clear", "pop", "popitem") and A.chain(c.func.value) in ("self._groups", "self._status_objs"):
                erasers.setdefault(f.qualname, []).append((A.chain(c.func.value), c.func.attr, c))
        for st in A.walk_stmts(f.node.body):
            if isinstance(st, ast.Delete) and any(isinstance(t, ast.Subscript) and A.chain(t.value) in ("self._groups", "self._status_objs") for t in st.targets):
                erasers.setdefault(f.qualname, []).append(("del", "del", st))
            for t in A.targets_of(st):
                if A.chain(t) in ("self._groups", "self._status_objs") and f.qualname != f"{CLS}.__init__":
                    erasers.setdefault(f.qualname, []).append((A.chain(t), "rebind", st))
    allowed = {f"{CLS}._clear_run_cache": "everything, at the start of a call", f"{CLS}._wait": "the group being waited for"}
    for fq, items in sorted(erasers.items()):
        for target, how, node in items:
            ok = fq in allowed
            ctx.ob(rule, f"{MOD}:{fq}:{target}.{how}", ok, allowed.get(fq, "") if ok else
                   f"{fq} forgets pending statuses: a later `wait` on their group returns at once and a failure of theirs reaches the plan at an unrelated message (or never)",
                   where=where(repo.funcs[f"{MOD}:{fq}"], node))
    ctx.expect(rule, 2)
    # _clear_run_cache itself is only reached when a call starts (or from reset)
    for f in repo.funcs_in(MOD):
        for c in A.calls_in(f.node):
            if A.call_name(c) == "self._clear_run_cache":
                ok = f.qualname in (f"{CLS}.__call__", f"{CLS}.reset", f"{CLS}._clear_call_cache")
                ctx.ob(rule, cname(f, c), ok, "" if ok else
                       "the per-call bookkeeping of pending statuses is cleared in the middle of a call: statuses started before this point are no longer waited for",
                       nontrivial=True, where=where(f, c))
    # in _wait the group is removed by the wait on that very group
    w = rm.handler("wait")
    pops = [c for c in A.calls_in(w.node) if A.call_name(c) == "self._groups.pop"]
    ok = len(pops) == 1 and pops[0].args and A.norm(pops[0].args[0]) == "group"
    ctx.ob(rule, cname(w, None, "wait removes exactly the group it waits for"), ok, "" if ok else "wait drops another group", where=where(w, w.node))


def d5_pardon_only_when_call_is_over(ctx, rm: REModel):
    """Status failures are ignored ('pardoned') only once the call is being torn down."""
    repo = rm.repo
    q.check_writers(ctx, "C12.D5-pardon-only-at-teardown", repo, "_pardon_failures",
                    {f"{CLS}.__init__": "no call yet", f"{CLS}._clear_call_cache": "a fresh event for every call"}, modules=[MOD], min_instances=2, kinds=("assign",))
    n = 0
    for f in repo.funcs_in(MOD):
        for c in A.calls_in(f.node):
            cn = A.call_name(c) or ""
            if cn.endswith("_pardon_failures.set") or cn == "pardon_failures.set":
                n += 1
                in_finally = f.key == rm.run.key and any(c is x for s in A.walk_stmts(rm.outer_try.finalbody) for x in A.calls_in(s))
                ctx.ob("C12.D5-pardon-only-at-teardown", cname(f, c), in_finally,
                       "" if in_finally else "statuses are pardoned while the plan is still running: a status that fails afterwards never reaches the plan", where=where(f, c))
    ctx.ob("C12.D5-pardon-only-at-teardown", f"{MOD}:pardon sites", n >= 1, f"{n} site(s)", where="")
    a = rm.m("_add_status_to_group")
    ok = "pardon_failures = self._pardon_failures" in A.norm(a.node)
    ctx.ob("C12.D5-pardon-only-at-teardown", cname(a, None, "each status captures the event of the call that issued it"), ok, "" if ok else "capture changed", where=where(a, a.node))


def d4_unhandled_ends_call(ctx, rm: REModel):
    run = rm.run
    # in the three `except` blocks that pop a dead plan: when no plan is left the exception is re-raised
    pops = []
    for s in A.walk_stmts(rm.inner_try.body):
        if isinstance(s, ast.Try):
            for h in s.handlers:
                if any("self._plan_stack.pop()" == A.norm(x) for x in h.body):
                    pops.append(h)
    for h in pops:
        ifs = [x for x in h.body if isinstance(x, ast.If) and A.norm(x.test) == "len(self._plan_stack)"]
        ok = bool(ifs) and ifs[0].orelse and isinstance(ifs[0].orelse[-1], ast.Raise) and ifs[0].orelse[-1].exc is None
        ctx.ob("C12.D4-unhandled-exception-ends-call", cname(run, h, f"{A.head(h)} -> re-raise when no plan is left"), ok,
               "" if ok else "an exception no plan handled is dropped when the plan stack empties", where=where(run, h))
        if A.norm(h.type) == "Exception" and h.name:
            # the stash may be exempt for the plan's normal end (`if not isinstance(e, StopIteration): stashed_exception = e`) when
            # one handler covers both the end of the plan and its failure
            ok = bool(ifs) and any(A.norm(x) == f"stashed_exception = {h.name}" or (
                isinstance(x, ast.If) and A.norm(x.test) == f"not isinstance({h.name}, StopIteration)" and not x.orelse
                and [A.norm(y) for y in A.body(x.body)] == [f"stashed_exception = {h.name}"]) for x in ifs[0].body)
            ctx.ob("C12.D4-unhandled-exception-ends-call", cname(run, h, f"{A.head(h)} -> the next plan on the stack gets the exception"), ok,
                   "" if ok else "the exception is not passed on to the enclosing plan", where=where(run, h))
    ctx.expect("C12.D4-unhandled-exception-ends-call", 4)
    for classes, status, h in c02.ladder(rm):
        if classes == ["Exception"]:
            ok = any(isinstance(s, ast.Raise) and (s.exc is None or A.chain(s.exc) == h.name) for s in h.body)
            ctx.ob("C12.D4-unhandled-exception-ends-call", cname(run, h, "outer except Exception re-raises"), ok, "" if ok else "swallowed", where=where(run, h))


def run(ctx):
    rm = REModel(ctx.repo)
    ctx.explanation = (
        "Decided: D1 an exception out of a command (other than cancellation) and an unknown command become the response of that very "
        "message, and an exception response / stashed exception is thrown at the plan's current yield; D2 the pending status failure is "
        "polled under the lock in every iteration and the poll dominates send/throw; D3 wait returns at the first failed status of its "
        "group (FIRST_EXCEPTION forwarded) and every status-returning command registers its status; a failed status is stored in both "
        "channels (C02.D4); D4 an exception no plan handles is re-raised when the stack empties and by the outer ladder. "
        "D5 status failures are pardoned only in _run's final cleanup and the pardon event is replaced only at call start. "
        "Not decided: which yield a concurrent status failure lands on.")
    d1_error_discipline(ctx, rm)
    d2_poll_every_iteration(ctx, rm)
    d3_wait_returns_on_first_failure(ctx, rm)
    d3_pending_statuses_not_forgotten(ctx, rm)
    n0 = len(ctx.obligations)
    c02.d4_failed_status(ctx, rm)
    for o in ctx.obligations[n0:]:
        o["rule"] = o["rule"].replace("C02.D4", "C12.D3")
    d4_unhandled_ends_call(ctx, rm)
    d5_pardon_only_when_call_is_over(ctx, rm)


CLAIM = {
    "text": "Decides the error discipline of the message loop: command exceptions and unknown commands become the response of the causing "
            "message; exception responses are thrown at the current yield; the pending status failure is polled before every send/throw; "
            "wait ends at the first failed status, never returns normally with pending futures it has not awaited (must-pass), and every status-returning command registers its status; unhandled exceptions are "
            "re-raised when the plan stack empties. Which yield a concurrent failure lands on is not decided.",
    "technique": "handler-shape (error discipline) rules; dominance on the loop CFG; table of status-registering handlers",
}

RE = "run_engine.py"
MUTANTS = [
    ("wait returns early when every status reports done, without awaiting the futures (seed C12-c)",
     [(RE, "            status_objs = self._status_objs.pop(group)\n            try:\n", "            status_objs = self._status_objs.pop(group)\n            if error_on_timeout and all(obj.done for obj in status_objs):\n                return True\n            try:\n")], "C12.D3"),
    ("the wait on the group is created but not awaited when nothing is watched",
     [(RE, "                    watch_task.add_done_callback(cancel_status_task_if_error)\n                await status_task\n", "                    watch_task.add_done_callback(cancel_status_task_if_error)\n                    await status_task\n")], "C12.D3"),
    ("close_run clears the per-call status bookkeeping (seed C12-b)", [(RE, "        await self._reset_checkpoint_state_coro()\n        return ret", "        await self._reset_checkpoint_state_coro()\n        if not self._run_bundlers:\n            self._clear_run_cache()\n        return ret")], "C12.D3-pending"),
    ("command errors dropped",
     [(RE, "                    except Exception as e:\n                        new_response = e\n                        continue\n                    # normal use", "                    except Exception as e:\n                        self.log.exception(\"command failed\")\n                        continue\n                    # normal use")], "C12.D1"),
    ("status failures polled after the plan was advanced",
     [(RE, "                    with self._state_lock:\n                        if self._exception is not None:\n                            stashed_exception = self._exception\n                            self._exception = None\n                    # The case where we have a stashed exception", "                    # The case where we have a stashed exception"),
      (RE, "                    # if we have a message hook, call it\n", "                    with self._state_lock:\n                        if self._exception is not None:\n                            stashed_exception = self._exception\n                            self._exception = None\n                    # if we have a message hook, call it\n")], "C12.D2"),
    ("pending failure not cleared",
     [(RE, "                            stashed_exception = self._exception\n                            self._exception = None\n", "                            stashed_exception = self._exception\n")], "C12.D2"),
    ("wait waits for all statuses",
     [(RE, "                            return_when=asyncio.FIRST_EXCEPTION,\n", "                            return_when=asyncio.ALL_COMPLETED,\n")], "C12.D3"),
    ("trigger status not registered",
     [(RE, "        self._add_status_to_group(obj=obj, status_object=ret, group=group, action=\"trigger\")\n", "")], "C12.D3"),
    ("exception response sent as a value",
     [(RE, "                    if stashed_exception is not None or isinstance(resp, Exception):", "                    if stashed_exception is not None:")], "C12.D1"),
    ("last plan's exception swallowed",
     [(RE, "                            if len(self._plan_stack):\n                                stashed_exception = e\n                                continue\n                            # or reraise to get out of the infinite loop\n                            else:\n                                raise\n\n                    # if we have a message hook",
       "                            if len(self._plan_stack):\n                                stashed_exception = e\n                                continue\n                            # or reraise to get out of the infinite loop\n                            else:\n                                raise StopIteration from e\n\n                    # if we have a message hook")], "C12.D4"),
    ("invalid command ignored",
     [(RE, "                        new_response = InvalidCommand(msg.command)\n                        continue", "                        continue")], "C12.D1"),
    ("cancellation of a command handed to the plan",
     [(RE, "                    except asyncio.CancelledError:\n                        raise\n                    # any other exception, stash it", "                    except asyncio.CancelledError as e:\n                        new_response = e\n                        continue\n                    # any other exception, stash it")], "C12.D1"),
    ("failed status only stored in the future",
     [(RE, "                    self._exception = e\n                    fut.set_exception(e)", "                    fut.set_exception(e)")], "C12.D3"),
]
BENIGN = [
    ("pending-futures test spelled with len", [(RE, "        futs = self._groups.pop(group, set())\n        if futs:\n", "        futs = self._groups.pop(group, set())\n        if len(futs) > 0:\n")]),
    ("exception variable renamed", [(RE, "                    except Exception as e:\n                        new_response = e\n                        continue\n                    # normal use", "                    except Exception as err2:\n                        new_response = err2\n                        continue\n                    # normal use")]),
]
