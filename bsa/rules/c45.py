"""C45 - collected stream assets line up with the stream's event numbering."""

from __future__ import annotations

import ast

from .. import astutil as A
from .. import q
from ..idioms import cname, where
from ..re_model import BCLS, BMOD, REModel
from . import c05


def run(ctx):
    rm = REModel(ctx.repo)
    # the seq_nums of collected datums stay contiguous across a rewind: the collected stream's counter is never rolled back (seed C45-c)
    c05.d1_unreplayed_streams_keep_numbers(ctx, rm, streams=("collect",), rule="C45.D4-collected-streams-keep-counters")
    ctx.explanation = (
        "Decided: D1 collect advances the stream counter by exactly the index width returned for the packed stream datums and "
        "stream-datum seq_nums are built from that counter (shared with C05.D3); all datums of one collect must have the same width; "
        "D2 when several objects are collected together one minimum index is computed from every object's get_index and passed to "
        "every collect_asset_docs call; D3 stream counters start at 1. Not decided: device index progressions.")
    c05.d3_collect_accounting(ctx, rm, rule="C45.D1-collect-advances-by-indices")
    pk = rm.b("_pack_seq_nums_into_stream_datum")
    ifs = [s for s in A.walk_stmts(pk.node.body) if isinstance(s, ast.If) and "stream_datum_previous_indices_difference != indices_difference" in A.norm(s.test)
           and any(isinstance(x, ast.Raise) for x in s.body)]
    ctx.ob("C45.D1-same-width", cname(pk, None, "datums of different width in one collect are rejected"), bool(ifs),
           "" if ifs else "detectors collected together may declare different numbers of frames", where=where(pk, pk.node))
    ifs = [s for s in A.walk_stmts(pk.node.body) if isinstance(s, ast.If) and "doc['seq_nums'] != StreamRange(start=0, stop=0)" in A.norm(q.expand_globals(rm.repo.module(BMOD).tree, q.expand(pk.node, s.test)))
           and any(isinstance(x, ast.Raise) for x in s.body)]
    ctx.ob("C45.D1-same-width", cname(pk, None, "device-supplied seq_nums are rejected"), bool(ifs), "" if ifs else "a device can number its own stream datums", where=where(pk, pk.node))
    # D2
    col = rm.b("collect")
    g = q.cfg(col, q.quiet_policy(ctx.repo))
    calls = [c for c in A.calls_in(col.node) if A.call_name(c) == "maybe_collect_asset_docs"]
    ctx.require(calls, "anchor vanished: maybe_collect_asset_docs in RunBundler.collect")
    pm = A.parents(col.node)
    for c in calls:
        idx = A.kw(c, "index")
        ok = isinstance(idx, ast.Name)
        defs_ok = False
        if ok:
            st = A.enclosing_stmt(c, pm)
            nids = g.nodes_of(st)
            defs = q.reaching_defs(g, nids[0], idx.id) if nids else []
            vals = [A.norm(v) for k, v, n in defs]
            defs_ok = bool(defs) and all(k == "assign" for k, v, n in defs) and any("min(" in v and "asyncio.gather(*coros)" in v for v in vals) \
                and all(("min(" in v) or v == "None" for v in vals)
        ctx.ob("C45.D2-single-min-index", cname(col, None, "index=<min over every object's get_index, or None for a single object>"), ok and defs_ok,
               "" if (ok and defs_ok) else "the index handed to collect_asset_docs is not the common minimum of all collected objects", nontrivial=True,
               where=where(col, c))
        # comprehension covers all objects
        comp = pm.get(c)
        while comp is not None and not isinstance(comp, (ast.ListComp, ast.GeneratorExp, ast.For, ast.AsyncFor)):
            comp = pm.get(comp)
        if isinstance(comp, ast.ListComp):
            ok = any(A.norm(gen.iter) == "collect_objects" for gen in comp.generators)
        else:
            # explicit loops: `for obj in collect_objects:` around the (async) loop over the documents, nothing skipping an object
            chain_ = []
            up_ = comp
            while up_ is not None and up_ is not col.node:
                if isinstance(up_, (ast.For, ast.AsyncFor)):
                    chain_.append(up_)
                if isinstance(up_, (ast.If, ast.Try, ast.While)):
                    chain_.append(None)
                up_ = pm.get(up_)
            ok = None not in chain_ and any(A.norm(l_.iter) == "collect_objects" for l_ in chain_) and \
                not any(isinstance(x, (ast.Break, ast.Continue, ast.Return)) for l_ in chain_ for x in A.walk_stmts(l_.body))
        ctx.ob("C45.D2-single-min-index", cname(col, None, "asset docs gathered from every collected object"), ok,
               "" if ok else "not every collected object is asked for its asset documents", where=where(col, c))
    txt = A.norm(col.node)
    built = "indices = [check_supports(obj, WritesStreamAssets).get_index for obj in collect_objects]" in txt or any(
        isinstance(s_, ast.For) and A.norm(s_.iter) == "collect_objects" and isinstance(s_.target, ast.Name)
        and [A.norm(x) for x in A.body(s_.body)] == [f"indices.append(check_supports({s_.target.id}, WritesStreamAssets).get_index)"] for s_ in A.walk_stmts(col.node.body))
    ok = built and "coros = [maybe_await(get_index()) for get_index in indices]" in txt
    ctx.ob("C45.D2-single-min-index", cname(col, None, "one get_index per collected object feeds the minimum"), ok,
           "" if ok else "the minimum is not taken over every collected object", where=where(col, col.node))
    # the minimum index really reaches the devices: the forwarding helper passes `index` on as it is.  0 is a valid common index
    # (first collect after kick-off): anything that treats the index by truthiness drops it, and every detector then describes
    # all it has written instead of stopping at the common minimum
    mc = rm.repo.func("bluesky.utils", "maybe_collect_asset_docs")
    fwd = [c for c in A.calls_in(mc.node) if isinstance(c.func, ast.Attribute) and c.func.attr == "collect_asset_docs"]
    br = [s for s in A.walk_stmts(mc.node.body) if isinstance(s, ast.If) and "WritesStreamAssets" in A.norm(s.test)]
    in_stream = [c for c in fwd if br and any(c in list(ast.walk(x)) for x in br[0].body)]
    ok = len(in_stream) == 1 and in_stream[0].args and isinstance(in_stream[0].args[0], ast.Name) and in_stream[0].args[0].id == "index"
    ctx.ob("C45.D2-index-forwarded-unchanged", cname(mc, None, "collect_asset_docs(index, ...) for stream-asset writers"), ok,
           "" if ok else "the helper no longer hands the index it was given to the device", nontrivial=True, where=where(mc, mc.node))
    truthy = []
    for n in ast.walk(mc.node):
        tests = []
        if isinstance(n, (ast.If, ast.While, ast.IfExp)):
            tests.append(n.test)
        if isinstance(n, ast.BoolOp):
            tests.extend(n.values)
        if isinstance(n, ast.UnaryOp) and isinstance(n.op, ast.Not):
            tests.append(n.operand)
        for t in tests:
            if isinstance(t, ast.Name) and t.id == "index":
                truthy.append(n)
    ctx.ob("C45.D2-index-forwarded-unchanged", cname(mc, None, "the index is never tested by truthiness (0 is a valid index)"), not truthy,
           "" if not truthy else f"`{A.short(truthy[0], 60)}` treats index 0 like 'no index': on the first collect the detectors are not held to the common minimum",
           nontrivial=True, where=where(mc, truthy[0] if truthy else mc.node))
    # D3
    n0 = len(ctx.obligations)
    c05.d2_numbering_is_the_counters(ctx, rm)
    kept = []
    for o in ctx.obligations[n0:]:
        if o["rule"] in ("C05.D2-streams-start-at-1", "C05.D2-shared-counters"):
            o["rule"] = o["rule"].replace("C05.D2", "C45.D3")
            kept.append(o)
    ctx.obligations[n0:] = kept
    ctx._min.pop("C05.D2-no-explicit-seq-num", None)


CLAIM = {
    "text": "Decides that collect advances a stream's counter by exactly the index width of the packed stream datums (same width enforced, "
            "device-supplied seq_nums rejected), that stream-datum seq_nums are derived from that counter, that one minimum index over "
            "all collected objects is passed to every collect_asset_docs call, and that stream counters start at 1 in the run's shared "
            "counter dict. Device index progressions are not decided.",
    "technique": "reaching definitions; sibling agreement of the collect branches; guard presence",
}

BU = "bundlers.py"
MUTANTS = [
    ("index 0 dropped by a truthiness test (seed C45-b)", [("utils/__init__.py", "        async for stream_doc in iterate_maybe_async(obj.collect_asset_docs(index, *args, **kwargs)):", "        index_args = (index,) if index else ()\n        async for stream_doc in iterate_maybe_async(obj.collect_asset_docs(*index_args, *args, **kwargs)):")], "C45.D2-index"),
    ("counter set from the detectors' index when several are collected (seed C45-a)", [("bundlers.py", "        else:\n            # Since there are no events or event_pages incrementing the sequence counter, we do it ourselves.\n            self._sequence_counters[stream_name] += indices_difference\n\n    async def backstop_collect", "        elif min_index is None:\n            self._sequence_counters[stream_name] += indices_difference\n        else:\n            self._sequence_counters[stream_name] = min_index + 1\n\n    async def backstop_collect")], "C45.D1"),
    ("multi-detector branch forgets the bump", [("bundlers.py", "        else:\n            # Since there are no events or event_pages incrementing the sequence counter, we do it ourselves.\n            self._sequence_counters[stream_name] += indices_difference\n\n    async def backstop_collect", "        else:\n            pass\n\n    async def backstop_collect")], "C45.D1"),
    ("first detector's index instead of the minimum", [(BU, "            min_index = min(await asyncio.gather(*coros))", "            min_index = (await asyncio.gather(*coros))[0]")], "C45.D2"),
    ("no index passed down", [(BU, "                obj,\n                index=min_index,\n            )", "                obj,\n            )")], "C45.D2"),
    ("width mismatch tolerated",
     [(BU, "        if (\n            stream_datum_previous_indices_difference\n            and stream_datum_previous_indices_difference != indices_difference\n        ):", "        if False:")], "C45.D1"),
    ("counter advanced by the last datum's stop", [(BU, "        indices_difference = doc[\"indices\"][\"stop\"] - doc[\"indices\"][\"start\"]", "        indices_difference = doc[\"indices\"][\"stop\"]")], "C45.D1"),
    ("only the first object's assets are gathered", [(BU, "            for obj in collect_objects\n            async for x in maybe_collect_asset_docs(", "            for obj in collect_objects[:1]\n            async for x in maybe_collect_asset_docs(")], "C45.D2"),
    ("streams start at 0", [(BU, "            self._sequence_counters[desc_key] = 1\n            self._sequence_counters_copy[desc_key] = 1\n\n        return (", "            self._sequence_counters[desc_key] = 0\n            self._sequence_counters_copy[desc_key] = 0\n\n        return (")], "C45.D3"),
]
BENIGN = []
