"""C27 - spiral patterns stay in bounds (guard clauses); square-spiral coverage is not decided."""

from __future__ import annotations

import ast

from .. import astutil as A
from .. import q
from ..idioms import cname, where

PT = "bluesky.plan_patterns"


def guard_of(f):
    """the If statement whose body appends to x_points / y_points inside the ring loop"""
    for s in A.walk_stmts(f.node.body):
        if isinstance(s, ast.If) and any("x_points.append" in A.norm(x) for x in s.body) and any("y_points.append" in A.norm(x) for x in s.body):
            return s
    return None


def run(ctx):
    repo = ctx.repo
    ctx.explanation = (
        "Decided: D1 in spiral and spiral_fermat every point appended to the trajectory is appended under a bound test on both "
        "coordinates, x and y are appended together under the same guard, and nothing is appended outside it; D2 the two sibling "
        "guards agree after normalisation (both test |x - tilt term| <= half_x and |y / dr_aspect| <= half_y with the same definitions "
        "of half_x / half_y). Not decided: the arithmetic of the bound itself, spiral_square_pattern covering the grid exactly once.")
    guards = {}
    for name in ("spiral", "spiral_fermat"):
        f = repo.func(PT, name)
        g = guard_of(f)
        appends = [s for s in A.walk_stmts(f.node.body) if isinstance(s, ast.Expr) and ("x_points.append" in A.norm(s) or "y_points.append" in A.norm(s))]
        if g is None:
            ctx.ob("C27.D1-append-under-bound-test", cname(f, None, "bound test around the appends"), False,
                   "points are appended without a bound test on both coordinates", where=where(f, f.node))
            continue
        guards[name] = g
        inside = [s for s in appends if any(s is x for x in g.body)]
        ok = len(inside) == len(appends) == 2
        ctx.ob("C27.D1-append-under-bound-test", cname(f, None, "x and y appended together, only under the bound test"), ok,
               "" if ok else f"{len(appends) - len(inside)} append(s) outside the bound test", nontrivial=True, where=where(f, g))
        t = g.test
        conj = t.values if isinstance(t, ast.BoolOp) and isinstance(t.op, ast.And) else [t]
        okx = any("half_x" in A.norm(c) and "abs(" in A.norm(c) and "<=" in A.norm(c) for c in conj)
        oky = any("half_y" in A.norm(c) and "abs(" in A.norm(c) and "<=" in A.norm(c) for c in conj)
        ctx.ob("C27.D1-append-under-bound-test", cname(f, None, "both coordinates are tested (conjunction)"), okx and oky and isinstance(t, ast.BoolOp) and isinstance(t.op, ast.And),
               "" if (okx and oky) else "one coordinate is not bounded", where=where(f, g))
        xs = [A.norm(s.value.args[0]) for s in inside if "x_points" in A.norm(s)]
        ys = [A.norm(s.value.args[0]) for s in inside if "y_points" in A.norm(s)]
        ok = xs == ["x_start + x"] and ys == ["y_start + y"]
        ctx.ob("C27.D1-append-under-bound-test", cname(f, None, "the tested offsets are the ones added to the centre"), ok, "" if ok else f"appends {xs} {ys}", where=where(f, g))
        txt = A.norm(f.node)
        ok = "half_x = x_range / 2" in txt and "half_y = y_range / (2 * dr_aspect)" in txt
        ctx.ob("C27.D2-sibling-guards-agree", cname(f, None, "half_x = x_range / 2 ; half_y = y_range / (2 * dr_aspect)"), ok, "" if ok else "half-range definitions changed", where=where(f, f.node))
        ok = "y = radius * np.sin(angle) * dr_aspect" in txt and "x = radius * np.cos(angle)" in txt
        ctx.ob("C27.D2-sibling-guards-agree", cname(f, None, "x, y offsets: y is scaled by dr_aspect"), ok, "" if ok else "offset definitions changed", where=where(f, f.node))
    if len(guards) == 2:
        a, b = A.norm(guards["spiral"].test), A.norm(guards["spiral_fermat"].test)
        ctx.ob("C27.D2-sibling-guards-agree", f"{PT}:spiral vs spiral_fermat bound tests", a == b,
               "" if a == b else f"spiral tests `{a}` but spiral_fermat tests `{b}`: with the same half_y definition one of them admits points outside the rectangle",
               nontrivial=True, where=where(repo.func(PT, "spiral_fermat"), guards["spiral_fermat"]))
    # square spiral: every append guarded by the 'not all points found' counter and a range test
    f = repo.func(PT, "spiral_square_pattern")
    appends = [s for s in A.walk_stmts(f.node.body) if isinstance(s, ast.Expr) and "x_points.append" in A.norm(s)]
    pm = A.parents(f.node)
    n_guarded = 0
    for s in appends:
        p = pm.get(s)
        while p is not None and not isinstance(p, ast.If):
            p = pm.get(p)
        if p is not None and "num_pnts_fnd <" in A.norm(p.test):
            n_guarded += 1
    ok = len(appends) == 5 and n_guarded == 4
    ctx.ob("C27.D1-append-under-bound-test", cname(f, None, "square spiral: the 4 ring sides append only while points are missing and in range"), ok,
           "" if ok else f"{len(appends)} appends, {n_guarded} guarded", where=where(f, f.node))
    incs = [s for s in A.walk_stmts(f.node.body) if isinstance(s, ast.AugAssign) and A.norm(s.target) == "num_pnts_fnd"]
    ctx.ob("C27.D1-append-under-bound-test", cname(f, None, "one counter increment per appended point"), len(incs) == 4, "" if len(incs) == 4 else f"{len(incs)} increments", where=where(f, f.node))


CLAIM = {
    "text": "Decides that spiral and spiral_fermat append a point only under a conjunction of bound tests on both coordinates, with x and y "
            "appended together, and that the two sibling bound tests are identical given identical half-range definitions (the disagreement "
            "fixed in /repo as F-13 would be reported again). The arithmetic of the bound and square-spiral coverage are not decided.",
    "technique": "guard dominance of the appends; sibling (clone) agreement of the two spiral guards",
}

T = "plan_patterns.py"
MUTANTS = [
    ("spiral_fermat y bound in the wrong frame (revert of F-13)", [(T, "        if (abs(x - (y / dr_aspect) / tilt_tan) <= half_x) and (abs(y / dr_aspect) <= half_y):\n            x_points.append(x_start + x)\n            y_points.append(y_start + y)\n\n    cyc = cycler(x_motor, x_points)\n    cyc += cycler(y_motor, y_points)\n    return cyc\n\n\ndef inner_list_product",
       "        if (abs(x - (y / dr_aspect) / tilt_tan) <= half_x) and (abs(y) <= half_y):\n            x_points.append(x_start + x)\n            y_points.append(y_start + y)\n\n    cyc = cycler(x_motor, x_points)\n    cyc += cycler(y_motor, y_points)\n    return cyc\n\n\ndef inner_list_product")], "C27.D2"),
    ("spiral drops the y test", [(T, "            if (abs(x - (y / dr_aspect) / tilt_tan) <= half_x) and (abs(y / dr_aspect) <= half_y):\n                x_points.append(x_start + x)", "            if abs(x - (y / dr_aspect) / tilt_tan) <= half_x:\n                x_points.append(x_start + x)")], "C27.D1"),
    ("spiral appends x unconditionally", [(T, "            if (abs(x - (y / dr_aspect) / tilt_tan) <= half_x) and (abs(y / dr_aspect) <= half_y):\n                x_points.append(x_start + x)\n                y_points.append(y_start + y)", "            x_points.append(x_start + x)\n            if (abs(x - (y / dr_aspect) / tilt_tan) <= half_x) and (abs(y / dr_aspect) <= half_y):\n                y_points.append(y_start + y)")], "C27.D1"),
    ("bound test uses or", [(T, "            if (abs(x - (y / dr_aspect) / tilt_tan) <= half_x) and (abs(y / dr_aspect) <= half_y):\n                x_points.append(x_start + x)", "            if (abs(x - (y / dr_aspect) / tilt_tan) <= half_x) or (abs(y / dr_aspect) <= half_y):\n                x_points.append(x_start + x)")], "C27.D1"),
    ("fermat half_y without the aspect", [(T, "    half_x = x_range / 2\n    half_y = y_range / (2 * dr_aspect)\n    tilt_tan = np.tan(tilt + np.pi / 2.0)\n\n    x_points, y_points = [], []\n\n    diag", "    half_x = x_range / 2\n    half_y = y_range / 2\n    tilt_tan = np.tan(tilt + np.pi / 2.0)\n\n    x_points, y_points = [], []\n\n    diag")], "C27.D2"),
]
BENIGN = []
