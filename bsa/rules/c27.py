"""C27 - spiral patterns stay in bounds (guard clauses); square-spiral coverage is not decided."""

from __future__ import annotations

import ast

from .. import astutil as A
from .. import exprs, q
from ..idioms import cname, where
from ..loader import AnalysisError

PT = "bluesky.plan_patterns"


def guard_of(f):
    """the If statement whose body appends to x_points / y_points inside the ring loop"""
    for s in A.walk_stmts(f.node.body):
        if isinstance(s, ast.If) and any("x_points.append" in A.norm(x) for x in s.body) and any("y_points.append" in A.norm(x) for x in s.body):
            return s
    return None


SYMS = ["x", "y", "dr_aspect", "tilt_tan", "x_range", "y_range"]
# the documented acceptance region, as (inner expression, bound) per coordinate; x, y are the offsets from the centre
REFERENCE = {
    "x": ("x - (y / dr_aspect) / tilt_tan", "x_range / 2"),
    "y": ("y", "y_range / 2"),
}
_NOT_VARS = ("abs", "np", "numpy", "math")


def _local_defs(f, name):
    return [s for s in A.walk_stmts(f.node.body) if isinstance(s, ast.Assign) and any(isinstance(t, ast.Name) and t.id == name for t in s.targets)]


class _Resolver:
    """Substitutes the definitions of helper variables: a name is a symbol (random rational), or has exactly one definition in
    the function - a plain assignment, or one position of a tuple returned by a module-level helper called with the function's
    own values (the helper's body is resolved the same way, its parameters bound to the call's arguments)."""

    def __init__(self, repo, func, point, depth=0):
        self.repo, self.func, self.depth = repo, func, depth
        self.env = dict(point)

    def _names(self, e):
        return [n.id for n in ast.walk(e) if isinstance(n, ast.Name) and n.id not in _NOT_VARS]

    def resolve(self, name):
        if name in self.env:
            return
        if self.depth > 3:
            raise AnalysisError(f"{self.func.key}: definitions nested too deeply at `{name}`")
        fn = self.func.node
        plain = [s for s in A.walk_stmts(fn.body) if isinstance(s, ast.Assign) and any(isinstance(t, ast.Name) and t.id == name for t in s.targets)]
        tup = [(s, [e.id if isinstance(e, ast.Name) else None for e in s.targets[0].elts].index(name)) for s in A.walk_stmts(fn.body)
               if isinstance(s, ast.Assign) and isinstance(s.targets[0], ast.Tuple) and any(isinstance(e, ast.Name) and e.id == name for e in s.targets[0].elts)]
        if len(plain) == 1 and not tup:
            for n in self._names(plain[0].value):
                self.resolve(n)
            self.env[name] = exprs.feval(plain[0].value, self.env)
            return
        if len(tup) == 1 and not plain and isinstance(tup[0][0].value, ast.Call) and isinstance(tup[0][0].value.func, ast.Name):
            st, idx = tup[0]
            helper = self.repo.funcs.get(f"{self.func.module.name}:{st.value.func.id}")
            if helper is not None:
                rets = [r for r in A.walk_stmts(helper.node.body) if isinstance(r, ast.Return)]
                if len(rets) == 1 and isinstance(rets[0].value, ast.Tuple) and idx < len(rets[0].value.elts):
                    # bind the helper's parameters to the call's arguments, evaluated here
                    sub = _Resolver(self.repo, helper, {k: v for k, v in self.env.items() if k in SYMS}, self.depth + 1)
                    params = [a.arg for a in helper.node.args.args]
                    for pname, arg in list(zip(params, st.value.args)) + [(k.arg, k.value) for k in st.value.keywords if k.arg]:
                        if pname in sub.env:
                            continue
                        try:
                            for n in self._names(arg):
                                self.resolve(n)
                            sub.env[pname] = exprs.feval(arg, self.env)
                        except AnalysisError:
                            pass  # an argument the bound does not depend on (e.g. the tilt angle behind tilt_tan)
                    e = rets[0].value.elts[idx]
                    for n in sub._names(e):
                        sub.resolve(n)
                    self.env[name] = exprs.feval(e, sub.env)
                    return
        raise AnalysisError(f"{self.func.key}: `{name}` used in the bound test has {len(plain)} plain / {len(tup)} tuple definitions; cannot substitute")

    def env_for(self, expr_list):
        for e in expr_list:
            for n in self._names(e):
                self.resolve(n)
        return self.env


def d2_bound_is_the_rectangle(ctx, f, g, conj):
    """Each conjunct `abs(E) <= B` of the guard is the SAME inequality as the documented one
    |x - (y/aspect)/tan(tilt+pi/2)| <= x_range/2 resp. |y| <= y_range/2: E/B and the reference ratio are equal
    as rational functions of (x, y, dr_aspect, tilt_tan, x_range, y_range) up to sign - decided by exact
    evaluation at random rational points after substituting the function's own definitions of the
    helper variables (half_x, half_y, ...)."""
    rule = "C27.D2-bound-equals-requested-rectangle"
    parsed = []
    for c in conj:
        if isinstance(c, ast.Compare) and len(c.ops) == 1 and isinstance(c.ops[0], (ast.LtE, ast.Lt)) and isinstance(c.left, ast.Call) and \
                A.call_name(c.left) in exprs.ABS_NAMES and len(c.left.args) == 1:
            parsed.append((c.left.args[0], c.comparators[0], c))
        else:
            ctx.ob(rule, cname(f, None, f"conjunct `{A.short(c, 60)}`"), False, "the bound test is not of the form abs(offset) <= half-range", where=where(f, g))

    def env_for(pt):
        return _Resolver(ctx.repo, f, pt).env_for([x for e, b, _ in parsed for x in (e, b)])

    pts = list(exprs.random_points(SYMS, 8, signed=("x", "y", "tilt_tan")))
    matched = {}
    for e, b, c in parsed:
        which = None
        for coord, (re_, rb_) in REFERENCE.items():
            ref_e, ref_b = ast.parse(re_, mode="eval").body, ast.parse(rb_, mode="eval").body
            same = True
            for pt in pts:
                env = env_for(pt)
                got = abs(exprs.feval(e, env) / exprs.feval(b, env))
                want = abs(exprs.feval(ref_e, env) / exprs.feval(ref_b, env))
                if got != want:
                    same = False
                    break
            if same:
                which = coord
        if which:
            matched[which] = c
        else:
            ctx.ob(rule, cname(f, None, f"conjunct `{A.short(c, 70)}`"), False,
                   "after substituting the function's own helper definitions this is neither |x - (y/dr_aspect)/tilt_tan| <= x_range/2 nor "
                   "|y| <= y_range/2: points outside the requested rectangle are accepted (or points inside it dropped)",
                   nontrivial=True, witness=[f"{k} = {v}" for k, v in pts[0].items()], where=where(f, g))
    for coord in ("x", "y"):
        ok = coord in matched
        ctx.ob(rule, cname(f, None, f"{coord}: |{REFERENCE[coord][0]}| <= {REFERENCE[coord][1]}"), ok,
               "" if ok else f"no conjunct of the guard is the documented {coord} bound", nontrivial=True, where=where(f, g))


def run(ctx):
    repo = ctx.repo
    ctx.explanation = (
        "Decided: D1 in spiral and spiral_fermat every point appended to the trajectory is appended under a bound test on both "
        "coordinates, x and y are appended together under the same guard, and nothing is appended outside it; D2 each conjunct of "
        "both guards, after substituting the function's own helper definitions (half_x, half_y), is the same inequality as the documented "
        "region |x - (y/dr_aspect)/tan(tilt+pi/2)| <= x_range/2, |y| <= y_range/2 - an identity of rational functions decided exactly at random "
        "rational points (no repo code runs). Not decided: that the generated (x, y) spiral itself is the documented curve; "
        "spiral_square_pattern covering the grid exactly once.")
    guards = {}
    for name in ("spiral", "spiral_fermat"):
        f = repo.func(PT, name)
        g = guard_of(f)
        appends = [s for s in A.walk_stmts(f.node.body) if isinstance(s, ast.Expr) and ("x_points.append" in A.norm(s) or "y_points.append" in A.norm(s))]
        if g is None:
            ctx.ob("C27.D1-append-under-bound-test", cname(f, None, "bound test around the appends"), False,
                   "points are appended without a bound test on both coordinates", where=where(f, f.node))
            continue
        guards[name] = g
        inside = [s for s in appends if any(s is x for x in g.body)]
        ok = len(inside) == len(appends) == 2
        ctx.ob("C27.D1-append-under-bound-test", cname(f, None, "x and y appended together, only under the bound test"), ok,
               "" if ok else f"{len(appends) - len(inside)} append(s) outside the bound test", nontrivial=True, where=where(f, g))
        t = g.test
        conj = t.values if isinstance(t, ast.BoolOp) and isinstance(t.op, ast.And) else [t]
        okx = any("half_x" in A.norm(c) and "abs(" in A.norm(c) and "<=" in A.norm(c) for c in conj)
        oky = any("half_y" in A.norm(c) and "abs(" in A.norm(c) and "<=" in A.norm(c) for c in conj)
        ctx.ob("C27.D1-append-under-bound-test", cname(f, None, "both coordinates are tested (conjunction)"), okx and oky and isinstance(t, ast.BoolOp) and isinstance(t.op, ast.And),
               "" if (okx and oky) else "one coordinate is not bounded", where=where(f, g))
        xs = [A.norm(s.value.args[0]) for s in inside if "x_points" in A.norm(s)]
        ys = [A.norm(s.value.args[0]) for s in inside if "y_points" in A.norm(s)]
        ok = xs == ["x_start + x"] and ys == ["y_start + y"]
        ctx.ob("C27.D1-append-under-bound-test", cname(f, None, "the tested offsets are the ones added to the centre"), ok, "" if ok else f"appends {xs} {ys}", where=where(f, g))
        d2_bound_is_the_rectangle(ctx, f, g, conj)
    # square spiral: every append guarded by the 'not all points found' counter and a range test
    f = repo.func(PT, "spiral_square_pattern")
    appends = [s for s in A.walk_stmts(f.node.body) if isinstance(s, ast.Expr) and "x_points.append" in A.norm(s)]
    pm = A.parents(f.node)
    n_guarded = 0
    for s in appends:
        p = pm.get(s)
        while p is not None and not isinstance(p, ast.If):
            p = pm.get(p)
        if p is not None and "num_pnts_fnd <" in A.norm(p.test):
            n_guarded += 1
    ok = len(appends) == 5 and n_guarded == 4
    ctx.ob("C27.D1-append-under-bound-test", cname(f, None, "square spiral: the 4 ring sides append only while points are missing and in range"), ok,
           "" if ok else f"{len(appends)} appends, {n_guarded} guarded", where=where(f, f.node))
    incs = [s for s in A.walk_stmts(f.node.body) if isinstance(s, ast.AugAssign) and A.norm(s.target) == "num_pnts_fnd"]
    ctx.ob("C27.D1-append-under-bound-test", cname(f, None, "one counter increment per appended point"), len(incs) == 4, "" if len(incs) == 4 else f"{len(incs)} increments", where=where(f, f.node))


CLAIM = {
    "text": "Decides that spiral and spiral_fermat append a point only under a conjunction of bound tests on both coordinates, with x and y "
            "appended together, and that each bound test is algebraically the documented rectangle test (|x - (y/aspect)/tan(tilt+pi/2)| <= x_range/2, "
            "|y| <= y_range/2) once the function's own half-range definitions are substituted; the disagreement fixed in /repo as F-13 would be "
            "reported again. The spiral curve itself and square-spiral coverage are not decided.",
    "technique": "guard dominance of the appends; exact rational-function identity test of the guard against the documented region (expression ASTs evaluated over Fractions)",
}

T = "plan_patterns.py"
MUTANTS = [
    ("spiral_fermat y bound in the wrong frame (revert of F-13)", [(T, "        if (abs(x - (y / dr_aspect) / tilt_tan) <= half_x) and (abs(y / dr_aspect) <= half_y):\n            x_points.append(x_start + x)\n            y_points.append(y_start + y)\n\n    cyc = cycler(x_motor, x_points)\n    cyc += cycler(y_motor, y_points)\n    return cyc\n\n\ndef inner_list_product",
       "        if (abs(x - (y / dr_aspect) / tilt_tan) <= half_x) and (abs(y) <= half_y):\n            x_points.append(x_start + x)\n            y_points.append(y_start + y)\n\n    cyc = cycler(x_motor, x_points)\n    cyc += cycler(y_motor, y_points)\n    return cyc\n\n\ndef inner_list_product")], "C27.D2"),
    ("spiral drops the y test", [(T, "            if (abs(x - (y / dr_aspect) / tilt_tan) <= half_x) and (abs(y / dr_aspect) <= half_y):\n                x_points.append(x_start + x)", "            if abs(x - (y / dr_aspect) / tilt_tan) <= half_x:\n                x_points.append(x_start + x)")], "C27.D1"),
    ("spiral appends x unconditionally", [(T, "            if (abs(x - (y / dr_aspect) / tilt_tan) <= half_x) and (abs(y / dr_aspect) <= half_y):\n                x_points.append(x_start + x)\n                y_points.append(y_start + y)", "            x_points.append(x_start + x)\n            if (abs(x - (y / dr_aspect) / tilt_tan) <= half_x) and (abs(y / dr_aspect) <= half_y):\n                y_points.append(y_start + y)")], "C27.D1"),
    ("bound test uses or", [(T, "            if (abs(x - (y / dr_aspect) / tilt_tan) <= half_x) and (abs(y / dr_aspect) <= half_y):\n                x_points.append(x_start + x)", "            if (abs(x - (y / dr_aspect) / tilt_tan) <= half_x) or (abs(y / dr_aspect) <= half_y):\n                x_points.append(x_start + x)")], "C27.D1"),
    ("fermat half_y without the aspect", [(T, "    half_x = x_range / 2\n    half_y = y_range / (2 * dr_aspect)\n    tilt_tan = np.tan(tilt + np.pi / 2.0)\n\n    x_points, y_points = [], []\n\n    diag", "    half_x = x_range / 2\n    half_y = y_range / 2\n    tilt_tan = np.tan(tilt + np.pi / 2.0)\n\n    x_points, y_points = [], []\n\n    diag")], "C27.D2"),
]
MUTANTS += [
    ("tilt shear loses the aspect in both spirals (seed C27-a)", [
        (T, "            if (abs(x - (y / dr_aspect) / tilt_tan) <= half_x) and (abs(y / dr_aspect) <= half_y):", "            if (abs(x - y / tilt_tan) <= half_x) and (abs(y / dr_aspect) <= half_y):"),
        (T, "        if (abs(x - (y / dr_aspect) / tilt_tan) <= half_x) and (abs(y / dr_aspect) <= half_y):", "        if (abs(x - y / tilt_tan) <= half_x) and (abs(y / dr_aspect) <= half_y):")], "C27.D2"),
    ("x bound against the full range", [(T, "    half_x = x_range / 2\n    half_y = y_range / (2 * dr_aspect)\n    tilt_tan = np.tan(tilt + np.pi / 2.0)\n\n    x_points, y_points = [], []\n\n    diag", "    half_x = x_range\n    half_y = y_range / (2 * dr_aspect)\n    tilt_tan = np.tan(tilt + np.pi / 2.0)\n\n    x_points, y_points = [], []\n\n    diag")], "C27.D2"),
]
BENIGN = [
    ("fermat y bound rewritten in the unscaled frame (same inequality)", [
        (T, "    half_y = y_range / (2 * dr_aspect)\n    tilt_tan = np.tan(tilt + np.pi / 2.0)\n\n    x_points, y_points = [], []\n\n    diag = np.sqrt(half_x**2 + half_y**2)", "    half_y = y_range / 2\n    tilt_tan = np.tan(tilt + np.pi / 2.0)\n\n    x_points, y_points = [], []\n\n    diag = np.sqrt(half_x**2 + (half_y / dr_aspect) ** 2)"),
        (T, "\n        if (abs(x - (y / dr_aspect) / tilt_tan) <= half_x) and (abs(y / dr_aspect) <= half_y):", "\n        if (abs(x - (y / dr_aspect) / tilt_tan) <= half_x) and (abs(y) <= half_y):")]),
    ("spiral guard with the conjuncts swapped and np.abs", [
        (T, "            if (abs(x - (y / dr_aspect) / tilt_tan) <= half_x) and (abs(y / dr_aspect) <= half_y):", "            if (np.abs(y / dr_aspect) <= half_y) and (np.abs(x - y / (dr_aspect * tilt_tan)) <= half_x):")]),
]
