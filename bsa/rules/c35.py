"""C35 - document normalization never alters its inputs; conditional backup order."""

from __future__ import annotations

import ast

from .. import astutil as A
from .. import q
from ..copydepth import FRESH, INPUT, NAMES, CopyDepth
from ..idioms import cname, where

TW = "bluesky.callbacks.tiled_writer"
HANDLERS = ["start", "stop", "descriptor", "event", "resource", "stream_resource", "stream_datum", "datum", "datum_page", "event_page"]


def _keyset_mutations(f, container_txt):
    """Statements that change WHICH keys `container_txt` (e.g. doc['data_keys']) has: a depth-1 item store with a
    computed key, a pop / del of one of its items, clear / update."""
    out = []
    for st in A.walk_stmts(f.node.body):
        hit = False
        for n in A.walk_local(st) if not isinstance(st, (ast.For, ast.While, ast.If, ast.With, ast.Try)) else [st]:
            if isinstance(n, ast.Subscript) and isinstance(n.ctx, (ast.Store, ast.Del)) and A.norm(n.value) == container_txt:
                hit = True
            if isinstance(n, ast.Call) and isinstance(n.func, ast.Attribute) and n.func.attr in ("pop", "clear", "update", "popitem", "setdefault") and A.norm(n.func.value) == container_txt:
                hit = True
        if hit:
            out.append(st)
    return out


def d4_key_names_agree(ctx, repo):
    """'keeps every internal event value': event() keeps exactly the keys recorded by descriptor() in _int_keys / _ext_keys.
    Both handlers rename reserved keys; the recorded names and the filtered names must be the names AFTER renaming, and the
    two renamings must be the same function of the reserved name."""
    rule = "C35.D4-recorded-key-names-are-final"
    d = repo.func(TW, "RunNormalizer.descriptor")
    e = repo.func(TW, "RunNormalizer.event")
    pol = q.quiet_policy(repo)
    # descriptor: snapshots of the key names
    snaps = [st for st in A.walk_stmts(d.node.body) if isinstance(st, ast.Expr) and isinstance(st.value, ast.Call) and
             A.call_name(st.value) in ("self._int_keys.update", "self._ext_keys.update", "self._int_keys.add", "self._ext_keys.add")]
    ok = len(snaps) >= 2
    ctx.ob(rule, cname(d, None, "descriptor records the internal and the external key names"), ok, "" if ok else "the key names are no longer recorded", where=where(d, d.node))
    # which container do the snapshots read?  resolve a local alias `data_keys = doc.get('data_keys', {})` / doc['data_keys']
    cont = "doc['data_keys']"
    aliases = {cont, "doc.get('data_keys', {})"}
    alias_names = {t.id for st in A.walk_stmts(d.node.body) if isinstance(st, ast.Assign) and A.norm(st.value) in aliases for t in st.targets if isinstance(t, ast.Name)}
    g = q.cfg(d, pol)
    muts = _keyset_mutations(d, cont) + [m for a in alias_names for m in _keyset_mutations(d, a)]
    ctx.ob(rule, cname(d, None, "key-renaming statements found"), bool(muts), "" if muts else "no statement renames reserved keys any more", where=where(d, d.node))
    for sn in snaps:
        reads = [n for n in ast.walk(sn) if (isinstance(n, ast.Name) and n.id in alias_names) or A.norm(n) in aliases]
        ok = bool(reads)
        if not ok:
            ctx.ob(rule, cname(d, sn), False, "the recorded names do not come from the descriptor's data_keys", where=where(d, sn))
            continue
        start = list(g.nodes_of(sn))
        seen = g.reachable(start)
        late = [m for m in muts if any(n in seen for n in g.nodes_of(m)) and m is not sn]
        ok = not late
        ctx.ob(rule, cname(d, sn), ok,
               "" if ok else f"`{A.short(late[0], 70)}` changes the key names after they were recorded: event() filters the renamed keys of the event against the old names and drops their values",
               nontrivial=True, where=where(d, late[0] if late else sn))
    # event: the filter reads doc['data'] after its renames
    filt = [st for st in A.walk_stmts(e.node.body) if isinstance(st, ast.Assign) and any(A.norm(t) in ("event_doc['data']", "event_doc['timestamps']") for t in st.targets)]
    ok = len(filt) == 2
    ctx.ob(rule, cname(e, None, "event filters data and timestamps by the recorded names"), ok, "" if ok else "filter statements not found", where=where(e, e.node))
    ge = q.cfg(e, pol)
    for cont_e in ("doc['data']", "doc['timestamps']"):
        em = _keyset_mutations(e, cont_e)
        for st in filt:
            if cont_e not in A.norm(st.value):
                continue
            seen = ge.reachable(list(ge.nodes_of(st)))
            late = [m for m in em if any(n in seen for n in ge.nodes_of(m))]
            ok = bool(em) and not late
            ctx.ob(rule, cname(e, None, f"{cont_e} is renamed before it is filtered"), ok,
                   "" if ok else "the event's keys are filtered before / without being renamed", nontrivial=True, where=where(e, st))
    # the two renamings agree: same iteration source, same new-key expression
    def renames(f, cont_txt):
        out = []
        for lp in A.walk_stmts(f.node.body):
            if isinstance(lp, ast.For) and isinstance(lp.target, ast.Name):
                for st in A.walk_stmts(lp.body):
                    if isinstance(st, ast.Assign) and isinstance(st.targets[0], ast.Subscript) and A.norm(st.targets[0].value) == cont_txt and \
                            isinstance(st.value, ast.Call) and A.norm(st.value.func) == f"{cont_txt}.pop" and [A.norm(a) for a in st.value.args] == [lp.target.id]:
                        # the new key, with temporaries of the loop body substituted and the loop variable written $name
                        import copy as _copy
                        key_ = _copy.deepcopy(st.targets[0].slice)
                        if isinstance(key_, ast.Name) and key_.id != lp.target.id:
                            defs_ = [x for x in A.walk_stmts(lp.body) if isinstance(x, ast.Assign) and len(x.targets) == 1 and A.norm(x.targets[0]) == key_.id]
                            if len(defs_) == 1:
                                key_ = _copy.deepcopy(defs_[0].value)

                        class _Ph(ast.NodeTransformer):
                            def visit_Name(self, n, v=lp.target.id):
                                return ast.Name(id="NAME_", ctx=n.ctx) if n.id == v else n
                        out.append((A.norm(lp.iter), A.norm(_Ph().visit(key_)).replace("NAME_", "$name")))
        return out
    rd, re_, rt = renames(d, "doc['data_keys']"), renames(e, "doc['data']"), renames(e, "doc['timestamps']")
    ok = len(rd) == 1 and rd == re_ == rt
    ctx.ob(rule, f"{TW}:RunNormalizer descriptor / event rename the same reserved names to the same new names", ok,
           "" if ok else f"descriptor renames {rd}, event data {re_}, timestamps {rt}", nontrivial=True, where=where(e, e.node))
    # the selection uses both recorded sets
    sel = [st for st in A.walk_stmts(e.node.body) if isinstance(st, ast.Assign) and "self._int_keys" in A.norm(st.value)]
    ok = len(sel) == 1 and "self._ext_keys" in A.norm(sel[0].value)
    ctx.ob(rule, cname(e, None, "kept keys = recorded internal keys (+ filled external ones)"), ok, "" if ok else "selection changed", where=where(e, e.node))
    ctx.expect(rule, 8)


def d5_frame_index_bookkeeping(ctx, repo):
    """'turns every datum referenced by an event into exactly one stream datum whose index and seq_num ranges match the event':
    for legacy datums carrying a `frame` (index of their last frame) the running index is kept in {carry, index}.  The block is
    interpreted exactly (bsa/miniexec.py) on every frame history up to 3 resources x 3 datums with frame indices < 5 and compared
    with the reference: ranges are contiguous from 0, datum k covers as many frames as its frame index advanced within its
    resource, and a frame index that falls back (next resource) restarts the count without losing what was accumulated."""
    import itertools

    from .. import miniexec

    rule = "C35.D5-frame-index-ranges-contiguous"
    f = repo.func(TW, "RunNormalizer._convert_datum_to_stream_datum")
    blk = [s for s in A.walk_stmts(f.node.body) if isinstance(s, ast.If) and A.norm(s.test) == "frame is not None"]
    ctx.require(len(blk) == 1, "anchor vanished: `if frame is not None` block of _convert_datum_to_stream_datum")
    body = [s for s in blk[0].body if not (isinstance(s, ast.Assign) and isinstance(s.value, ast.Subscript) and "self." in A.norm(s.value))]
    dict_names = [t.id for s in blk[0].body if isinstance(s, ast.Assign) and "self._next_frame_index" in A.norm(s.value) for t in s.targets if isinstance(t, ast.Name)]
    ctx.require(len(dict_names) == 1, "anchor vanished: the per-(stream, data key) frame index record")
    dn = dict_names[0]
    # initial record: defaultdict(lambda: {...}) in __init__
    init = repo.func(TW, "RunNormalizer.__init__")
    recs = [n for st in A.walk_stmts(init.node.body) if "_next_frame_index" in A.norm(st) for n in ast.walk(st) if isinstance(n, ast.Dict)]
    ctx.require(recs, "anchor vanished: initial value of the frame index record")
    init_rec = {A.const_str(k): v.value for k, v in zip(recs[0].keys, recs[0].values) if isinstance(v, ast.Constant)}
    ranges_stmt = [s for s in A.walk_stmts(f.node.body) if isinstance(s, ast.Assign) and A.norm(s.targets[0]) == "indices"]
    ok = len(ranges_stmt) == 1 and A.norm(ranges_stmt[0].value) == "StreamRange(start=index_start, stop=index_stop)"
    ctx.ob(rule, cname(f, None, "indices = [index_start, index_stop)"), ok, "" if ok else "the computed range is not what is emitted", where=where(f, f.node))
    seqs = [s for s in A.walk_stmts(f.node.body) if isinstance(s, ast.Assign) and A.norm(s.targets[0]) == "seq_nums"]
    ok = len(seqs) == 1 and A.norm(seqs[0].value) == "StreamRange(start=index_start + 1, stop=index_stop + 1)"
    ctx.ob(rule, cname(f, None, "seq_nums = indices shifted by one"), ok, "" if ok else "seq_nums no longer follow the indices", where=where(f, f.node))
    # histories: per resource a strictly increasing list of last-frame indices; the next resource starts below what was reached
    def histories():
        per_res = [c for n in (1, 2, 3) for c in itertools.combinations(range(5), n)]
        for n_res in (1, 2, 3):
            for combo in itertools.product(per_res, repeat=n_res):
                okc = all(combo[i + 1][0] + 1 < combo[i][-1] + 1 for i in range(n_res - 1))  # the restart is detectable: first datum of the next resource ends before the reached index
                if okc:
                    yield combo
    bad, n = None, 0
    for hist in histories():
        n += 1
        env = {dn: dict(init_rec)}
        total = 0
        for r in hist:
            prev = 0
            for fr in r:
                env["frame"] = fr
                miniexec.run_local_block(body, env)
                want = (total, total + (fr + 1 - prev))
                got = (env.get("index_start"), env.get("index_stop"))
                if got != want and bad is None:
                    bad = (hist, fr, got, want)
                total, prev = want[1], fr + 1
        if bad:
            break
    ok = bad is None
    ctx.ob(rule, cname(f, None, f"running frame index over {n} frame histories (<= 3 resources x 3 datums, frames < 5)"), ok,
           "" if ok else f"history {bad[0]} (last-frame index of each datum, per resource): at frame {bad[1]} the datum gets indices {bad[2]}, expected {bad[3]} "
           "(ranges must continue where the previous datum stopped)", nontrivial=True, witness=None if ok else [f"history {bad[0]}", f"got {bad[2]}", f"expected {bad[3]}"], where=where(f, blk[0]))


def run(ctx):
    repo = ctx.repo
    ctx.explanation = (
        "Decided: D1 copy-depth / mutation analysis of all 10 document handlers of RunNormalizer and the helpers they call (through "
        "self.* calls and through the instance caches): no item assignment, deletion or mutating method call has a receiver that is an "
        "alias of the received document or a value nested in it / in a shallow copy of it; D2 every document RunNormalizer hands on goes "
        "through emit(), which validates against the schema, and emit is the only caller of the dispatcher; D3 _ConditionalBackup appends "
        "to its buffer before calling the primary, only ever sets the failure flag, flushes the buffer in order to every backup inside a "
        "per-backup try/except, then clears it. D4 the key names descriptor() records for event() to filter by are read after every statement that renames reserved "
        "keys, event() renames before it filters, and both rename the same names the same way; D5 the frame-index bookkeeping of legacy datums gives contiguous ranges on every bounded frame history. Not decided: datum -> stream-datum index arithmetic, patch "
        "functions supplied by the user.")
    cd = CopyDepth(repo, TW, "RunNormalizer")
    n_handlers = 0
    for h in HANDLERS:
        f = repo.funcs.get(f"{TW}:RunNormalizer.{h}")
        if f is None:
            ctx.ob("C35.D1-inputs-not-mutated", f"{TW}:RunNormalizer.{h}", False, "document handler vanished")
            continue
        n_handlers += 1
        before = len(cd.findings)
        cd.analyse(f, [INPUT])
        new = cd.findings[before:]
        for (g, stmt, rc, what) in new:
            ctx.ob("C35.D1-inputs-not-mutated", f"{TW}:RunNormalizer.{h} -> {g.qualname.split('.')[-1]}:{A.head(stmt)}", False,
                   f"{what}: the caller's document (or a dictionary nested in it) is modified", nontrivial=True, where=where(g, stmt))
        ctx.ob("C35.D1-inputs-not-mutated", f"{TW}:RunNormalizer.{h} (all other mutation sites)", True,
               f"no mutation of an input alias / shared nested value", nontrivial=True, where=where(f, f.node))
    ctx.extra["mutation_sites_evaluated"] = cd.evaluated
    ctx.extra["cache_classes"] = {k: NAMES[v] for k, v in cd.cache_cls.items()}
    ctx.ob("C35.D1-inputs-not-mutated", f"{TW}:RunNormalizer mutation sites evaluated", cd.evaluated >= 20, f"{cd.evaluated} sites", where="")
    # D2
    emit = repo.func(TW, "RunNormalizer.emit")
    b = [A.norm(s) for s in A.body(emit.node)]
    ok = b == ["schema_validators[name].validate(doc)", "self.dispatcher.process(name, doc)"]
    ctx.ob("C35.D2-only-validated-documents", cname(emit, None, "validate, then dispatch"), ok, "" if ok else f"emit is {b}", where=where(emit, emit.node))
    n_direct = 0
    for k, f in repo.funcs.items():
        if k.startswith(f"{TW}:RunNormalizer.") and f.key != emit.key:
            for c in A.calls_in(f.node):
                if (A.call_name(c) or "").endswith("dispatcher.process"):
                    n_direct += 1
                    ctx.ob("C35.D2-only-validated-documents", cname(f, c), False, "a document bypasses schema validation", where=where(f, c))
    ctx.ob("C35.D2-only-validated-documents", f"{TW}:RunNormalizer: emit is the only caller of dispatcher.process", n_direct == 0, "")
    # D3
    cb = repo.func(TW, "_ConditionalBackup.__call__")
    body = cb.node.body
    i_app = next((i for i, s in enumerate(body) if A.norm(s) == "self._buffer.append((name, doc))"), None)
    i_try = next((i for i, s in enumerate(body) if isinstance(s, ast.Try) and any("self.primary_callback(name, doc)" in A.norm(x) for x in s.body)), None)
    ok = i_app is not None and i_try is not None and i_app < i_try
    ctx.ob("C35.D3-backup-order", cname(cb, None, "document buffered before the primary is called"), ok,
           "" if ok else "the document that makes the primary fail is not handed to the backups", nontrivial=True, where=where(cb, cb.node))
    if i_try is not None:
        hs = body[i_try].handlers
        ok = len(hs) == 1 and A.norm(hs[0].type) == "Exception" and any(A.norm(x) == "self._push_to_backup = True" for x in hs[0].body) and not any(isinstance(x, ast.Raise) for x in hs[0].body)
        ctx.ob("C35.D3-backup-order", cname(cb, None, "a primary failure only sets the flag"), ok, "" if ok else "primary failure handling changed", where=where(cb, cb.node))
    flag_writes = [(f, s) for f in repo.funcs_in(TW) for s in A.walk_stmts(f.node.body) if any(A.chain(t) == "self._push_to_backup" for t in A.targets_of(s))]
    for f, s in flag_writes:
        v = getattr(s, "value", None)
        ok = (f.qualname == "_ConditionalBackup.__init__" and isinstance(v, ast.Constant) and v.value is False) or \
             (f.qualname == "_ConditionalBackup.__call__" and isinstance(v, ast.Constant) and v.value is True)
        ctx.ob("C35.D3-backup-order", cname(f, s), ok, "" if ok else "the failure flag is reset: later documents of the run skip the backups", where=where(f, s))
    flush = [s for s in body if isinstance(s, ast.If) and A.norm(s.test) == "self._push_to_backup"]
    ok = False
    if flush:
        loops = [s for s in flush[0].body if isinstance(s, ast.For)]
        # `for <n>, <d> in self._buffer: for <b> in self.backup_callbacks: try: <b>(<n>, <d>) except Exception: ...` - whatever the names
        def delivers(outer, inner):
            if not (isinstance(outer.target, ast.Tuple) and len(outer.target.elts) == 2 and isinstance(inner.target, ast.Name)):
                return False
            want = f"{inner.target.id}({A.norm(outer.target.elts[0])}, {A.norm(outer.target.elts[1])})"
            return any(isinstance(y, ast.Try) and y.body and A.norm(y.body[0]) == want and any(h.type is not None and A.norm(h.type) == "Exception" for h in y.handlers)
                       and not any(isinstance(z, (ast.Raise, ast.Break, ast.Return)) for h in y.handlers for z in A.walk_stmts(h.body)) for y in inner.body)
        ok = len(loops) == 1 and A.norm(loops[0].iter) == "self._buffer" and any(
            isinstance(x, ast.For) and A.norm(x.iter) == "self.backup_callbacks" and delivers(loops[0], x) for x in loops[0].body)
        seq = flush[0].body
        ok = ok and A.norm(seq[-1]) == "self._buffer.clear()"
    ctx.ob("C35.D3-backup-order", cname(cb, None, "flush: every buffered document, in order, to every backup (isolated), then clear"), ok,
           "" if ok else "backups miss documents / get them twice / out of order / one failing backup stops the others", nontrivial=True, where=where(cb, cb.node))
    if flush and i_try is not None:
        ok = body.index(flush[0]) > i_try
        ctx.ob("C35.D3-backup-order", cname(cb, None, "flush happens after the primary was tried"), ok, "" if ok else "order changed", where=where(cb, cb.node))
    init = repo.func(TW, "_ConditionalBackup.__init__")
    ok = "deque(maxlen=maxlen)" in A.norm(init.node)
    ctx.ob("C35.D3-backup-order", cname(init, None, "buffer is a FIFO"), ok, "" if ok else "buffer type changed", where=where(init, init.node))
    if ctx.tier == "thorough":
        # widened: the other document consumers of this module (outside C35's subject) - information only
        for clsname in ("_RunWriter",):
            cd2 = CopyDepth(repo, TW, clsname)
            for h in HANDLERS:
                f = repo.funcs.get(f"{TW}:{clsname}.{h}")
                if f is not None:
                    cd2.analyse(f, [INPUT])
            for (g, stmt, rc, what) in cd2.findings:
                ctx.info(f"(outside C35's subject) {g.key}:{A.head(stmt)}: {what}")

    d4_key_names_agree(ctx, repo)
    d5_frame_index_bookkeeping(ctx, repo)


CLAIM = {
    "text": "Decides by copy-depth analysis (interprocedural through self.* helpers and instance caches) that no document handler of RunNormalizer "
            "mutates the received document or a dictionary nested in it / in a shallow copy of it (the three shallow-copy defects fixed in /repo as "
            "F-8 would be reported again), that every document it emits goes through the validating emit, and that _ConditionalBackup buffers "
            "before trying the primary, never resets its failure flag, and flushes in order to every backup in isolation; for 'keeps every internal value' it decides the key-name "
            "agreement only: the names descriptor() records are read after every renaming of reserved keys, event() renames before filtering, "
            "and both rename identically; and it decides the running frame index of legacy datums by interpreting that block exactly on every "
            "frame history up to 3 resources x 3 datums (ranges contiguous, restart detected, nothing accumulated is lost).",
    "technique": "alias / copy-depth abstract interpretation with mutation sinks; call-site ownership; CFG reachability (recorded names vs key-set mutations); writer/reader agreement of the two renamings; exact interpretation of the index bookkeeping block over all bounded frame histories",
}

T = "callbacks/tiled_writer.py"
MUTANTS = [
    ("frame-index carry overwritten instead of accumulated (seed C35-b)", [(T, "            _next_index[\"index\"] = frame + 1\n            index_stop = sum(_next_index.values())\n            if index_stop < index_start:\n                # The datum is likely referencing a next Resource, but the indexing must continue\n                _next_index[\"carry\"] = index_start\n                index_stop = sum(_next_index.values())", "            if frame + 1 < _next_index[\"index\"]:\n                _next_index[\"carry\"] = _next_index[\"index\"]\n            _next_index[\"index\"] = frame + 1\n            index_stop = sum(_next_index.values())")], "C35.D5"),
    ("event filters before renaming reserved keys", [(T, "        # Part 1. ----- Internal Data -----\n        # Emit a new Event with _internal_ data: select only keys without 'external' flag or those that are filled\n        filled = doc.pop(\"filled\", {})", "        filled = doc.get(\"filled\", {})"),
        (T, "        event_doc[\"timestamps\"] = {k: v for k, v in doc[\"timestamps\"].items() if k in event_keys}\n        self.emit(DocumentNames.event, event_doc)", "        event_doc[\"timestamps\"] = {k: v for k, v in doc[\"timestamps\"].items() if k in event_keys}\n        for name in RESERVED_DATA_KEYS:\n            if name in doc[\"data\"].keys():\n                doc[\"data\"][f\"_{name}\"] = doc[\"data\"].pop(name)\n        self.emit(DocumentNames.event, event_doc)")], "C35.D4"),
    ("event renames reserved keys with a different prefix", [(T, "                doc[\"data\"][f\"_{name}\"] = doc[\"data\"].pop(name)", "                doc[\"data\"][f\"__{name}\"] = doc[\"data\"].pop(name)")], "C35.D4"),
    ("resource handler shallow-copies (revert of F-8)", [(T, "    def resource(self, doc: Resource):\n        doc = copy.deepcopy(doc)", "    def resource(self, doc: Resource):\n        doc = copy.copy(doc)")], "C35.D1"),
    ("datum handler shallow-copies (revert of F-8)", [(T, "    def datum(self, doc: Datum):\n        doc = copy.deepcopy(doc)", "    def datum(self, doc: Datum):\n        doc = copy.copy(doc)")], "C35.D1"),
    ("stream_resource handler shallow-copies (revert of F-8)", [(T, "    def stream_resource(self, doc: StreamResource):\n        doc = copy.deepcopy(doc)", "    def stream_resource(self, doc: StreamResource):\n        doc = copy.copy(doc)")], "C35.D1"),
    ("descriptor handler works on a shallow copy", [(T, "    def descriptor(self, doc: EventDescriptor):\n        doc = copy.deepcopy(doc)", "    def descriptor(self, doc: EventDescriptor):\n        doc = copy.copy(doc)")], "C35.D1"),
    ("event handler renames keys in place", [(T, "    def event(self, doc: Event):\n        doc = copy.deepcopy(doc)", "    def event(self, doc: Event):\n        doc = dict(doc)")], "C35.D1"),
    ("start handler stamps the input", [(T, "    def start(self, doc: RunStart):\n        doc = copy.copy(doc)\n        if patch := self.patches.get(\"start\"):", "    def start(self, doc: RunStart):\n        doc[\"normalized\"] = True\n        doc = copy.copy(doc)\n        if patch := self.patches.get(\"start\"):")], "C35.D1"),
    ("stop handler emits without validation", [(T, "        self.emit(DocumentNames.stop, doc)\n\n    def descriptor", "        self.dispatcher.process(DocumentNames.stop, doc)\n\n    def descriptor")], "C35.D2"),
    ("backup buffers after the primary", [(T, "        self._buffer.append((name, doc))\n\n        try:\n            self.primary_callback(name, doc)", "        try:\n            self.primary_callback(name, doc)"),
                                          (T, "            self._push_to_backup = True\n\n        if self._push_to_backup:", "            self._push_to_backup = True\n\n        self._buffer.append((name, doc))\n        if self._push_to_backup:")], "C35.D3") if False else
    ("backup flag reset after a flush", [(T, "            self._buffer.clear()\n\n\nclass RunNormalizer", "            self._buffer.clear()\n            self._push_to_backup = False\n\n\nclass RunNormalizer")], "C35.D3"),
    ("buffer not cleared after the flush", [(T, "            self._buffer.clear()\n\n\nclass RunNormalizer", "\n\nclass RunNormalizer")], "C35.D3"),
    ("a failing backup stops the flush", [(T, "                    try:\n                        bcb(name, doc)\n                    except Exception as e:\n                        logger.warning(\n                            f\"Backup callback {bcb.__class__.__name__} failed with error: {e}\", stacklevel=2\n                        )", "                    bcb(name, doc)")], "C35.D3"),
    ("primary failing document not buffered", [(T, "        self._buffer.append((name, doc))\n\n        try:\n            self.primary_callback(name, doc)\n        except Exception as e:", "        try:\n            self.primary_callback(name, doc)\n            self._buffer.append((name, doc))\n        except Exception as e:")], "C35.D3"),
]
BENIGN = [
    ("deepcopy imported by name", [(T, "    def datum(self, doc: Datum):\n        doc = copy.deepcopy(doc)", "    def datum(self, doc: Datum):\n        from copy import deepcopy\n\n        doc = deepcopy(doc)")]),
]
