"""C35 - document normalization never alters its inputs; conditional backup order."""

from __future__ import annotations

import ast

from .. import astutil as A
from .. import q
from ..copydepth import FRESH, INPUT, NAMES, CopyDepth
from ..idioms import cname, where

TW = "bluesky.callbacks.tiled_writer"
HANDLERS = ["start", "stop", "descriptor", "event", "resource", "stream_resource", "stream_datum", "datum", "datum_page", "event_page"]


def run(ctx):
    repo = ctx.repo
    ctx.explanation = (
        "Decided: D1 copy-depth / mutation analysis of all 10 document handlers of RunNormalizer and the helpers they call (through "
        "self.* calls and through the instance caches): no item assignment, deletion or mutating method call has a receiver that is an "
        "alias of the received document or a value nested in it / in a shallow copy of it; D2 every document RunNormalizer hands on goes "
        "through emit(), which validates against the schema, and emit is the only caller of the dispatcher; D3 _ConditionalBackup appends "
        "to its buffer before calling the primary, only ever sets the failure flag, flushes the buffer in order to every backup inside a "
        "per-backup try/except, then clears it. Not decided: 'keeps every internal value', datum -> stream-datum index arithmetic, patch "
        "functions supplied by the user.")
    cd = CopyDepth(repo, TW, "RunNormalizer")
    n_handlers = 0
    for h in HANDLERS:
        f = repo.funcs.get(f"{TW}:RunNormalizer.{h}")
        if f is None:
            ctx.ob("C35.D1-inputs-not-mutated", f"{TW}:RunNormalizer.{h}", False, "document handler vanished")
            continue
        n_handlers += 1
        before = len(cd.findings)
        cd.analyse(f, [INPUT])
        new = cd.findings[before:]
        for (g, stmt, rc, what) in new:
            ctx.ob("C35.D1-inputs-not-mutated", f"{TW}:RunNormalizer.{h} -> {g.qualname.split('.')[-1]}:{A.head(stmt)}", False,
                   f"{what}: the caller's document (or a dictionary nested in it) is modified", nontrivial=True, where=where(g, stmt))
        ctx.ob("C35.D1-inputs-not-mutated", f"{TW}:RunNormalizer.{h} (all other mutation sites)", True,
               f"no mutation of an input alias / shared nested value", nontrivial=True, where=where(f, f.node))
    ctx.extra["mutation_sites_evaluated"] = cd.evaluated
    ctx.extra["cache_classes"] = {k: NAMES[v] for k, v in cd.cache_cls.items()}
    ctx.ob("C35.D1-inputs-not-mutated", f"{TW}:RunNormalizer mutation sites evaluated", cd.evaluated >= 20, f"{cd.evaluated} sites", where="")
    # D2
    emit = repo.func(TW, "RunNormalizer.emit")
    b = [A.norm(s) for s in A.body(emit.node)]
    ok = b == ["schema_validators[name].validate(doc)", "self.dispatcher.process(name, doc)"]
    ctx.ob("C35.D2-only-validated-documents", cname(emit, None, "validate, then dispatch"), ok, "" if ok else f"emit is {b}", where=where(emit, emit.node))
    n_direct = 0
    for k, f in repo.funcs.items():
        if k.startswith(f"{TW}:RunNormalizer.") and f.key != emit.key:
            for c in A.calls_in(f.node):
                if (A.call_name(c) or "").endswith("dispatcher.process"):
                    n_direct += 1
                    ctx.ob("C35.D2-only-validated-documents", cname(f, c), False, "a document bypasses schema validation", where=where(f, c))
    ctx.ob("C35.D2-only-validated-documents", f"{TW}:RunNormalizer: emit is the only caller of dispatcher.process", n_direct == 0, "")
    # D3
    cb = repo.func(TW, "_ConditionalBackup.__call__")
    body = cb.node.body
    i_app = next((i for i, s in enumerate(body) if A.norm(s) == "self._buffer.append((name, doc))"), None)
    i_try = next((i for i, s in enumerate(body) if isinstance(s, ast.Try) and any("self.primary_callback(name, doc)" in A.norm(x) for x in s.body)), None)
    ok = i_app is not None and i_try is not None and i_app < i_try
    ctx.ob("C35.D3-backup-order", cname(cb, None, "document buffered before the primary is called"), ok,
           "" if ok else "the document that makes the primary fail is not handed to the backups", nontrivial=True, where=where(cb, cb.node))
    if i_try is not None:
        hs = body[i_try].handlers
        ok = len(hs) == 1 and A.norm(hs[0].type) == "Exception" and any(A.norm(x) == "self._push_to_backup = True" for x in hs[0].body) and not any(isinstance(x, ast.Raise) for x in hs[0].body)
        ctx.ob("C35.D3-backup-order", cname(cb, None, "a primary failure only sets the flag"), ok, "" if ok else "primary failure handling changed", where=where(cb, cb.node))
    flag_writes = [(f, s) for f in repo.funcs_in(TW) for s in A.walk_stmts(f.node.body) if any(A.chain(t) == "self._push_to_backup" for t in A.targets_of(s))]
    for f, s in flag_writes:
        v = getattr(s, "value", None)
        ok = (f.qualname == "_ConditionalBackup.__init__" and isinstance(v, ast.Constant) and v.value is False) or \
             (f.qualname == "_ConditionalBackup.__call__" and isinstance(v, ast.Constant) and v.value is True)
        ctx.ob("C35.D3-backup-order", cname(f, s), ok, "" if ok else "the failure flag is reset: later documents of the run skip the backups", where=where(f, s))
    flush = [s for s in body if isinstance(s, ast.If) and A.norm(s.test) == "self._push_to_backup"]
    ok = False
    if flush:
        loops = [s for s in flush[0].body if isinstance(s, ast.For)]
        ok = len(loops) == 1 and A.norm(loops[0].iter) == "self._buffer" and any(
            isinstance(x, ast.For) and A.norm(x.iter) == "self.backup_callbacks" and any(isinstance(y, ast.Try) and "bcb(name, doc)" in A.norm(y.body[0]) and
                                                                                          any(A.norm(h.type) == "Exception" for h in y.handlers) for y in x.body) for x in loops[0].body)
        seq = flush[0].body
        ok = ok and A.norm(seq[-1]) == "self._buffer.clear()"
    ctx.ob("C35.D3-backup-order", cname(cb, None, "flush: every buffered document, in order, to every backup (isolated), then clear"), ok,
           "" if ok else "backups miss documents / get them twice / out of order / one failing backup stops the others", nontrivial=True, where=where(cb, cb.node))
    if flush and i_try is not None:
        ok = body.index(flush[0]) > i_try
        ctx.ob("C35.D3-backup-order", cname(cb, None, "flush happens after the primary was tried"), ok, "" if ok else "order changed", where=where(cb, cb.node))
    init = repo.func(TW, "_ConditionalBackup.__init__")
    ok = "deque(maxlen=maxlen)" in A.norm(init.node)
    ctx.ob("C35.D3-backup-order", cname(init, None, "buffer is a FIFO"), ok, "" if ok else "buffer type changed", where=where(init, init.node))
    if ctx.tier == "thorough":
        # widened: the other document consumers of this module (outside C35's subject) - information only
        for clsname in ("_RunWriter",):
            cd2 = CopyDepth(repo, TW, clsname)
            for h in HANDLERS:
                f = repo.funcs.get(f"{TW}:{clsname}.{h}")
                if f is not None:
                    cd2.analyse(f, [INPUT])
            for (g, stmt, rc, what) in cd2.findings:
                ctx.info(f"(outside C35's subject) {g.key}:{A.head(stmt)}: {what}")


CLAIM = {
    "text": "Decides by copy-depth analysis (interprocedural through self.* helpers and instance caches) that no document handler of RunNormalizer "
            "mutates the received document or a dictionary nested in it / in a shallow copy of it (the three shallow-copy defects fixed in /repo as "
            "F-8 would be reported again), that every document it emits goes through the validating emit, and that _ConditionalBackup buffers "
            "before trying the primary, never resets its failure flag, and flushes in order to every backup in isolation. Value preservation and "
            "datum index arithmetic are not decided.",
    "technique": "alias / copy-depth abstract interpretation with mutation sinks; call-site ownership; statement-order rule",
}

T = "callbacks/tiled_writer.py"
MUTANTS = [
    ("resource handler shallow-copies (revert of F-8)", [(T, "    def resource(self, doc: Resource):\n        doc = copy.deepcopy(doc)", "    def resource(self, doc: Resource):\n        doc = copy.copy(doc)")], "C35.D1"),
    ("datum handler shallow-copies (revert of F-8)", [(T, "    def datum(self, doc: Datum):\n        doc = copy.deepcopy(doc)", "    def datum(self, doc: Datum):\n        doc = copy.copy(doc)")], "C35.D1"),
    ("stream_resource handler shallow-copies (revert of F-8)", [(T, "    def stream_resource(self, doc: StreamResource):\n        doc = copy.deepcopy(doc)", "    def stream_resource(self, doc: StreamResource):\n        doc = copy.copy(doc)")], "C35.D1"),
    ("descriptor handler works on a shallow copy", [(T, "    def descriptor(self, doc: EventDescriptor):\n        doc = copy.deepcopy(doc)", "    def descriptor(self, doc: EventDescriptor):\n        doc = copy.copy(doc)")], "C35.D1"),
    ("event handler renames keys in place", [(T, "    def event(self, doc: Event):\n        doc = copy.deepcopy(doc)", "    def event(self, doc: Event):\n        doc = dict(doc)")], "C35.D1"),
    ("start handler stamps the input", [(T, "    def start(self, doc: RunStart):\n        doc = copy.copy(doc)\n        if patch := self.patches.get(\"start\"):", "    def start(self, doc: RunStart):\n        doc[\"normalized\"] = True\n        doc = copy.copy(doc)\n        if patch := self.patches.get(\"start\"):")], "C35.D1"),
    ("stop handler emits without validation", [(T, "        self.emit(DocumentNames.stop, doc)\n\n    def descriptor", "        self.dispatcher.process(DocumentNames.stop, doc)\n\n    def descriptor")], "C35.D2"),
    ("backup buffers after the primary", [(T, "        self._buffer.append((name, doc))\n\n        try:\n            self.primary_callback(name, doc)", "        try:\n            self.primary_callback(name, doc)"),
                                          (T, "            self._push_to_backup = True\n\n        if self._push_to_backup:", "            self._push_to_backup = True\n\n        self._buffer.append((name, doc))\n        if self._push_to_backup:")], "C35.D3") if False else
    ("backup flag reset after a flush", [(T, "            self._buffer.clear()\n\n\nclass RunNormalizer", "            self._buffer.clear()\n            self._push_to_backup = False\n\n\nclass RunNormalizer")], "C35.D3"),
    ("buffer not cleared after the flush", [(T, "            self._buffer.clear()\n\n\nclass RunNormalizer", "\n\nclass RunNormalizer")], "C35.D3"),
    ("a failing backup stops the flush", [(T, "                    try:\n                        bcb(name, doc)\n                    except Exception as e:\n                        logger.warning(\n                            f\"Backup callback {bcb.__class__.__name__} failed with error: {e}\", stacklevel=2\n                        )", "                    bcb(name, doc)")], "C35.D3"),
    ("primary failing document not buffered", [(T, "        self._buffer.append((name, doc))\n\n        try:\n            self.primary_callback(name, doc)\n        except Exception as e:", "        try:\n            self.primary_callback(name, doc)\n            self._buffer.append((name, doc))\n        except Exception as e:")], "C35.D3"),
]
BENIGN = [
    ("deepcopy imported by name", [(T, "    def datum(self, doc: Datum):\n        doc = copy.deepcopy(doc)", "    def datum(self, doc: Datum):\n        from copy import deepcopy\n\n        doc = deepcopy(doc)")]),
]
