"""C32 - the plan simulator replays plans faithfully."""

from __future__ import annotations

import ast

from .. import astutil as A
from .. import q
from ..idioms import cname, where

SM = "bluesky.simulators"


def run(ctx):
    repo = ctx.repo
    ctx.explanation = (
        "Decided: D1 the value sent into the plan in iteration k+1 is None or the result of the handler chosen for message k (reaching "
        "definitions: the reset at the top of the loop body kills older values); D2 every yielded message is appended exactly once, "
        "unconditionally, in order, and the list is returned; D3 the handler is the first match in message_handlers and add_handler "
        "inserts at index 0 by default (newest wins), 'end' appends; D4 the plan's return value is recorded from StopIteration.value; "
        "D5 check_limits_async calls check_value on the first argument of every 'set' to a Checkable device not in the ignore list and "
        "propagates its exception. Not decided: behaviour of user handlers.")
    f = repo.func(SM, "RunEngineSimulator.simulate_plan")
    g = q.cfg(f, q.quiet_policy(repo))
    loops = [s for s in A.walk_stmts(f.node.body) if isinstance(s, ast.While)]
    ctx.require(loops, "anchor vanished: the loop of simulate_plan")
    lp = loops[0]
    # the send: `gen.send(V)`; the message it returns is bound to M (walrus in the loop test or a plain assignment)
    sends = [c for c in A.calls_in(f.node) if A.call_name(c) == "gen.send" and len(c.args) == 1]
    ok = len(sends) == 1 and isinstance(sends[0].args[0], ast.Name)
    ctx.ob("C32.D1-send-value-provenance", cname(f, None, "the plan is advanced by one gen.send(<variable>)"), ok, "" if ok else "the plan is not advanced with a send variable", where=where(f, lp))
    if not ok:
        return
    V = sends[0].args[0].id
    pm = A.parents(f.node)
    holder = pm.get(sends[0])
    M = holder.target.id if isinstance(holder, ast.NamedExpr) else (holder.targets[0].id if isinstance(holder, ast.Assign) and isinstance(holder.targets[0], ast.Name) else None)
    ctx.ob("C32.D1-send-value-provenance", cname(f, None, "the yielded message is bound to a variable"), M is not None, "" if M else "message not bound", where=where(f, lp))
    if M is None:
        return
    send_nodes = [n.id for n in g.nodes if n.ast is not None and any(c is sends[0] for c in ast.walk(n.ast))]
    # every value ever assigned to V: None, or <handler>.runnable(M) where <handler> is the first match for M
    vdefs = [x for x in A.walk_stmts(f.node.body) if any(isinstance(t, ast.Name) and t.id == V for t in A.targets_of(x))]
    def is_first_match(e):
        e = q.expand(f.node, e, keep=(M,))
        if isinstance(e, ast.NamedExpr):
            e = e.value
        return isinstance(e, ast.Call) and A.call_name(e) == "next" and len(e.args) == 2 and isinstance(e.args[0], ast.GeneratorExp) and A.norm(e.args[1]) == "None" \
            and A.norm(e.args[0].generators[0].iter) == "self.message_handlers" and len(e.args[0].generators[0].ifs) == 1 \
            and A.norm(e.args[0].generators[0].ifs[0]) == f"{A.norm(e.args[0].generators[0].target)}.predicate({M})" and A.norm(e.args[0].elt) == A.norm(e.args[0].generators[0].target)
    kinds = []
    walrus_handlers = {n.target.id: n.value for n in ast.walk(f.node) if isinstance(n, ast.NamedExpr)}
    for d in vdefs:
        v = getattr(d, "value", None)
        if isinstance(v, ast.Constant) and v.value is None:
            kinds.append("None")
        elif isinstance(v, ast.Call) and isinstance(v.func, ast.Attribute) and v.func.attr == "runnable" and [A.norm(a) for a in v.args] == [M] and not v.keywords:
            h = v.func.value
            src = walrus_handlers.get(h.id) if isinstance(h, ast.Name) and h.id in walrus_handlers else h
            kinds.append("handler" if is_first_match(src) else "?handler")
        else:
            kinds.append("?" + A.short(v, 40))
    ok = bool(kinds) and set(kinds) <= {"None", "handler"} and "handler" in kinds
    ctx.ob("C32.D1-send-value-provenance", cname(f, None, "value sent = None or the FIRST matching handler's result for that message"), ok,
           "" if ok else f"values assigned to the send variable: {sorted(set(kinds))}", nontrivial=True, where=where(f, lp))
    # no stale value: on every path from one send to the next the send variable is assigned again
    starts = [v for n in send_nodes for v, lab in g.succ[n] if not (isinstance(lab, tuple) and lab[0] == "exc")]
    w = g.must_pass(starts, lambda n: n.stmt is not None and n.kind == "stmt" and n.stmt in vdefs, exits=send_nodes)
    ctx.ob("C32.D1-send-value-provenance", cname(f, None, "the send variable is assigned afresh on every path from one send to the next"), w is None,
           "" if w is None else "a handler result can be sent again for a later message", nontrivial=True, witness=w[-6:] if w else None, where=where(f, lp))
    # the handler's result is only used under 'a handler matched'
    # D2: every yielded message is recorded exactly once, in order, and the list is returned
    rets = [x for x in f.node.body if isinstance(x, ast.Return) and isinstance(x.value, ast.Name)]
    L = rets[-1].value.id if rets else None
    apps = [x for x in A.walk_stmts(lp.body) if isinstance(x, ast.Expr) and isinstance(x.value, ast.Call) and A.call_name(x.value) == f"{L}.append" and [A.norm(a) for a in x.value.args] == [M]]
    ok = L is not None and len(apps) == 1
    ctx.ob("C32.D2-messages-recorded", cname(f, None, "the returned list is appended the message at one site"), ok, "" if ok else "messages are skipped / duplicated", where=where(f, lp))
    if ok:
        w = g.must_pass(starts, lambda n: n.stmt is apps[0], exits=send_nodes, edge_ok=lambda u, v, lab: True)
        # the only way around the append is the loop exit (falsy message / StopIteration), which never reaches the next send
        ctx.ob("C32.D2-messages-recorded", cname(f, None, "every path from one send to the next records the message"), w is None,
               "" if w is None else "messages are skipped / duplicated", nontrivial=True, witness=w[-6:] if w else None, where=where(f, lp))
        inner_loops = [x for x in A.walk_stmts(lp.body) if isinstance(x, (ast.For, ast.While)) and apps[0] in list(A.walk_stmts(x.body))]
        ctx.ob("C32.D2-messages-recorded", cname(f, None, "recorded once per message (not in an inner loop)"), not inner_loops, "" if not inner_loops else "duplicated", where=where(f, lp))
    inits = [x for x in f.node.body if isinstance(x, (ast.Assign, ast.AnnAssign)) and any(isinstance(t, ast.Name) and t.id == L for t in A.targets_of(x))]
    ok = len(inits) == 1 and isinstance(inits[0].value, ast.List) and not inits[0].value.elts
    ctx.ob("C32.D2-messages-recorded", cname(f, None, "returns the list of messages, started empty"), ok, "" if ok else "return changed", where=where(f, f.node))
    conts = [x for x in A.walk_stmts(lp.body) if isinstance(x, ast.Continue)]
    ctx.ob("C32.D2-messages-recorded", cname(f, None, "no continue in the loop"), not conts, "" if not conts else "loop can skip handling", where=where(f, lp))
    ok = "handler" in kinds
    ctx.ob("C32.D3-first-matching-handler", cname(f, None, "first handler whose predicate matches; its result becomes the send value"), ok,
           "" if ok else "handler selection changed", nontrivial=True, where=where(f, lp))
    ah = repo.func(SM, "RunEngineSimulator.add_handler")
    ins = [c for c in A.calls_in(ah.node) if A.call_name(c) == "self.message_handlers.insert"]
    dflt = dict(zip([a.arg for a in ah.node.args.args][len(ah.node.args.args) - len(ah.node.args.defaults):], ah.node.args.defaults))
    ok = len(ins) == 1 and "index if index != END else len(self.message_handlers)" in A.norm(ins[0].args[0]) and A.norm(dflt.get("index")) == "0"
    ctx.ob("C32.D3-first-matching-handler", cname(ah, None, "insert at index (default 0: newest wins; 'end' appends)"), ok, "" if ok else "insertion position changed", where=where(ah, ah.node))
    lam = [n for n in A.walk_local(ah.node) if isinstance(n, ast.Lambda)]
    ok = bool(lam) and "msg.command in commands" in A.norm(lam[0]) and "msg_filter is None" in A.norm(lam[0])
    ctx.ob("C32.D3-first-matching-handler", cname(ah, None, "predicate = command matches and filter accepts"), ok, "" if ok else "predicate changed", where=where(ah, ah.node))
    # a single command name is matched by equality, not as a substring: where `commands` is a str it is wrapped in a collection before the
    # predicate `msg.command in commands` closes over it ('stage' in 'unstage' is True)
    gah = q.cfg(ah, q.quiet_policy(repo))

    def wraps(val):
        return isinstance(val, (ast.List, ast.Tuple, ast.Set)) and len(val.elts) == 1 and A.norm(val.elts[0]) == "commands"

    def wraps_when_str(val):  # `[commands] if isinstance(commands, str) else <anything>` (or the mirrored test)
        return isinstance(val, ast.IfExp) and ((A.norm(val.test) == "isinstance(commands, str)" and wraps(val.body))
                                               or (A.norm(val.test) == "not isinstance(commands, str)" and wraps(val.orelse)))
    ins_stmt = [s for s in A.walk_stmts(ah.node.body) if A.find_calls(s, "self.message_handlers.insert")]
    wrapped = None
    if ins_stmt and gah.nodes_of(ins_stmt[0]):
        nid = gah.nodes_of(ins_stmt[0])[0]
        wrapped = True
        seen_any = False
        for kind, val, dn in q.reaching_defs(gah, nid, "commands"):
            is_wrap = kind == "assign" and wraps(val)
            under_str = dn is not None and q.guard_true_dominates(gah, dn.stmt, lambda t: A.norm(t) == "isinstance(commands, str)", "T") is None
            if (is_wrap and under_str) or (kind == "assign" and wraps_when_str(val)):
                seen_any = True
        # the str case must not reach the insert unwrapped: cut the wrapping definitions and the non-str edge, the insert must become unreachable
        def edge_ok(u, v, lab):
            n = gah.nodes[u]
            if n.kind == "test" and A.norm(n.ast) == "isinstance(commands, str)" and lab == "F":
                return False
            if n.kind == "test" and A.norm(n.ast) == "not isinstance(commands, str)" and lab == "T":
                return False
            return True
        def is_wrap_node(n):
            d = q._node_defs(n, "commands")
            return d is not None and d[0] == "assign" and (wraps(d[1]) or wraps_when_str(d[1]))
        reach = gah.reachable([gah.entry], avoid=is_wrap_node, edge_ok=edge_ok)
        wrapped = seen_any and nid not in reach
    ctx.ob("C32.D3-first-matching-handler", cname(ah, None, "a single command name is wrapped in a collection before it is matched with `in`"), bool(wrapped),
           "" if wrapped else "a command given as one string reaches `msg.command in commands` as a string: the test is a substring test, and a handler for 'unstage' "
           "(wait_for, clear_checkpoint, unmonitor, unsubscribe) also answers 'stage' (wait, checkpoint, monitor, subscribe) messages", nontrivial=True, where=where(ah, ah.node))
    # D4
    hs = [h for s in A.walk_stmts(f.node.body) if isinstance(s, ast.Try) for h in s.handlers if h.type is not None and A.norm(h.type) == "StopIteration" and h.name]
    ok = bool(hs) and [A.norm(x) for x in hs[0].body] == [f"self.return_value = {hs[0].name}.value"]
    ctx.ob("C32.D4-return-value", cname(f, None, "return_value = StopIteration.value"), ok, "" if ok else "the plan's return value is not recorded", where=where(f, f.node))
    # D5
    cl = repo.func(SM, "check_limits_async")
    loops = [s for s in cl.node.body if isinstance(s, ast.For) and A.norm(s.iter) == "plan"]
    ok = False
    if loops:
        # the check is reached only for a 'set' on a Checkable object that is not on the ignore list - by guard dominance, however
        # the three conditions are nested, merged or written as guard clauses
        gcl = q.cfg(cl, q.quiet_policy(repo))
        chk = [s_ for s_ in A.walk_stmts(loops[0].body) if not isinstance(s_, (ast.If, ast.For, ast.While, ast.Try, ast.With))
               and "await maybe_await(obj.check_value(msg.args[0]))" in A.norm(s_)]

        def conj_has(t, txt):
            vals = t.values if isinstance(t, ast.BoolOp) and isinstance(t.op, ast.And) else [t]
            return any(A.norm(v) == txt for v in vals)
        if len(chk) == 1:
            is_set = q.guard_true_dominates(gcl, chk[0], lambda t: conj_has(t, "msg.command == 'set'"), "T") is None
            not_ignored = q.guard_true_dominates(gcl, chk[0], lambda t: conj_has(t, "obj not in ignore"), "T") is None or \
                q.guard_true_dominates(gcl, chk[0], lambda t: A.norm(t) == "obj in ignore", "F") is None
            checkable = q.guard_true_dominates(gcl, chk[0], lambda t: conj_has(t, "isinstance(obj, Checkable)"), "T") is None or \
                q.guard_true_dominates(gcl, chk[0], lambda t: A.norm(t) == "not isinstance(obj, Checkable)", "F") is None
            n_tests = sum(1 for s_ in A.walk_stmts(loops[0].body) if isinstance(s_, ast.If))
            ok = is_set and not_ignored and checkable and n_tests <= 3
    ctx.ob("C32.D5-check-limits", cname(cl, None, "check_value(msg.args[0]) for every 'set' on a Checkable"), ok, "" if ok else "limit check changed", nontrivial=True, where=where(cl, cl.node))
    tries = [s for s in A.walk_stmts(cl.node.body) if isinstance(s, ast.Try)]
    ctx.ob("C32.D5-check-limits", cname(cl, None, "a limit violation propagates"), not tries, "" if not tries else "exceptions of check_value are caught", where=where(cl, cl.node))
    if loops:
        ig = [s for s in A.walk_stmts(loops[0].body) if A.norm(s) == "ignore.append(obj)"]
        pm = A.parents(cl.node)
        ok = len(ig) == 1 and isinstance(pm.get(ig[0]), ast.If) and pm[ig[0]].orelse and ig[0] in pm[ig[0]].orelse
        ctx.ob("C32.D5-check-limits", cname(cl, None, "only devices without check_value are ignored"), ok, "" if ok else "checkable devices get ignored", where=where(cl, cl.node))
    c = repo.func(SM, "check_limits")
    ok = "call_in_bluesky_event_loop(check_limits_async(plan))" in A.norm(c.node)
    ctx.ob("C32.D5-check-limits", cname(c, None, "check_limits runs check_limits_async on the plan"), ok, "" if ok else "delegation changed", where=where(c, c.node))


CLAIM = {
    "text": "Decides by reaching definitions that the value sent into a simulated plan is None or the chosen handler's result for the previous "
            "message, that every message is recorded once in order, that the first matching handler is used with newest-first insertion by "
            "default, that the plan's return value is recorded, and that check_limits checks the target of every 'set' on a Checkable device "
            "and lets violations propagate. User handler behaviour is not decided.",
    "technique": "reaching definitions on the loop CFG; loop-shape rules",
}

F = "simulators.py"
MUTANTS = [
    ("a single command name stays a string (seed C32-c)",
     [("simulators.py", "        if isinstance(commands, str):\n            commands = [commands]\n", "        if not isinstance(commands, str):\n            commands = tuple(commands)\n")], "C32.D3"),
    ("the wrap is applied to non-strings",
     [("simulators.py", "        if isinstance(commands, str):\n            commands = [commands]\n", "        if not isinstance(commands, str):\n            commands = [commands]\n")], "C32.D3"),
    ("send_value not reset", [(F, "            while msg := gen.send(send_value):\n                send_value = None\n", "            while msg := gen.send(send_value):\n")], "C32.D1"),
    ("handlers appended by default", [(F, "        index: Union[int, Literal[\"end\"]] = 0,", "        index: Union[int, Literal[\"end\"]] = \"end\",")], "C32.D3"),
    ("last matching handler wins", [(F, "next((h for h in self.message_handlers if h.predicate(msg)), None)", "next((h for h in reversed(self.message_handlers) if h.predicate(msg)), None)")], "C32.D3"),
    ("only handled messages recorded", [(F, "                messages.append(msg)\n                LOGGER.debug(\"<%s\", msg)\n                if handler := next((h for h in self.message_handlers if h.predicate(msg)), None):\n                    send_value = handler.runnable(msg)",
                                          "                LOGGER.debug(\"<%s\", msg)\n                if handler := next((h for h in self.message_handlers if h.predicate(msg)), None):\n                    messages.append(msg)\n                    send_value = handler.runnable(msg)")], "C32.D2"),
    ("return value dropped", [(F, "            self.return_value = e.value", "            self.return_value = None")], "C32.D4"),
    ("limit violations swallowed", [(F, "                await maybe_await(obj.check_value(msg.args[0]))", "                try:\n                    await maybe_await(obj.check_value(msg.args[0]))\n                except Exception:\n                    ignore.append(obj)")], "C32.D5"),
    ("check only the first set per device", [(F, "            if isinstance(obj, Checkable):\n                await maybe_await(obj.check_value(msg.args[0]))", "            if isinstance(obj, Checkable):\n                await maybe_await(obj.check_value(msg.args[0]))\n                ignore.append(obj)")], "C32.D5"),
]
BENIGN = [
    ("single name wrapped by a conditional expression", [("simulators.py", "        if isinstance(commands, str):\n            commands = [commands]\n", "        commands = (commands,) if isinstance(commands, str) else tuple(commands)\n")]),
    ("send logging moved into the handler branch", [("simulators.py", "                    send_value = handler.runnable(msg)\n\n                if send_value:\n                    LOGGER.debug(f\">send {send_value}\")", "                    send_value = handler.runnable(msg)\n                    LOGGER.debug(\">send %s\", send_value)")]),
]
