"""C40 - interruption records are complete and uniquely numbered."""

from __future__ import annotations

import ast

from .. import astutil as A
from .. import q
from ..idioms import cname, where
from ..re_model import BCLS, BMOD, CLS, MOD, REModel
from . import c05


def broadcast_record(f, what_arg=None):
    """statements of f that call record_interruption inside a loop over every bundler"""
    from ..bidioms import broadcast_loops
    return broadcast_loops(f.node, "record_interruption")


def run(ctx):
    rm = REModel(ctx.repo)
    repo = rm.repo
    ctx.explanation = (
        "Decided: D1 the interruptions stream is registered as never replayed and rewind keeps its live counter (own seq_num per "
        "record, counted by RunStop); D2 the three interruption sites (accepted hard pause, resume, start of a suspension) each "
        "record in every open run, and no other site records; D3 the stream's descriptor is composed only when recording is "
        "enabled and record_interruption is a no-op otherwise. Not decided: that every real schedule passes through those sites.")
    c05.d1_unreplayed_streams_keep_numbers(ctx, rm, streams=("interruptions",), rule="C40.D1-interruptions-keep-counters")
    # D2 call sites
    sites = {}
    for f in repo.all_funcs():
        for c in A.calls_in(f.node):
            if isinstance(c.func, ast.Attribute) and c.func.attr == "record_interruption":
                sites.setdefault(f.qualname, []).append((f, c))
    want = {f"{CLS}._request_pause_coro": "pause", f"{CLS}.resume": "resume", f"{CLS}._start_suspender": "suspension"}
    for qn, what in want.items():
        f = repo.func(MOD, qn)
        loops = broadcast_record(f)
        ctx.ob("C40.D2-record-sites", cname(f, None, f"records the {what} in every open run"), bool(loops),
               "" if loops else f"a {what} is no longer recorded in every open run", where=where(f, f.node))
    for qn, lst in sites.items():
        ok = qn in want
        for f, c in lst:
            ctx.ob("C40.D2-record-sites", cname(f, c), ok, "" if ok else "an interruption record is emitted from an undocumented site", where=where(f, c))
    # the pause is recorded only when accepted (after the guard, on the non-deferred path) and before the task is cancelled
    rp = rm.m("_request_pause_coro")
    g = q.cfg(rp, q.quiet_policy(repo))
    loops = broadcast_record(rp)
    if loops:
        w = q.guard_true_dominates(g, loops[0], lambda t: A.norm(t) == "defer", "F")
        w2 = q.guard_true_dominates(g, loops[0], lambda t: "can_pause" in A.norm(t), "F")
        ctx.ob("C40.D2-record-sites", cname(rp, None, "only an accepted hard pause is recorded"), w is None and w2 is None,
               "" if (w is None and w2 is None) else "a rejected or deferred pause request is recorded as an interruption", nontrivial=True,
               witness=w or w2, where=where(rp, loops[0]))
    # resume: recorded before the rewind (so the record itself is not affected by it ordering-wise) and after the paused guard
    rs = rm.m("resume")
    seq = list(A.walk_stmts(rs.node.body))
    i_guard = next((i for i, s in enumerate(seq) if isinstance(s, ast.If) and "is_paused" in A.norm(s.test)), None)
    i_rec = next((i for i, s in enumerate(seq) if isinstance(s, ast.For) and A.method_calls(s, "record_interruption")), None)
    ok = i_guard is not None and i_rec is not None and i_guard < i_rec
    ctx.ob("C40.D2-record-sites", cname(rs, None, "recorded only when actually resuming"), ok, "" if ok else "a refused resume is recorded", where=where(rs, rs.node))
    # D3
    opn = rm.b("open_run")
    comp = [c for c in A.calls_in(opn.node) if (A.call_name(c) or "").endswith("_compose_descriptor") and A.const_str(A.kw(c, "name")) == "interruptions"]
    ok = False
    if comp:
        g = q.cfg(opn, q.quiet_policy(repo))
        pm = A.parents(opn.node)
        st = A.enclosing_stmt(comp[0], pm)
        w = q.guard_true_dominates(g, st, lambda t: A.norm(t) == "self.record_interruptions", "T")
        ok = w is None
    ctx.ob("C40.D3-only-when-enabled", cname(opn, None, "interruptions descriptor composed only under record_interruptions"), ok,
           "" if ok else "the interruptions stream exists although recording is disabled (or is never created)", nontrivial=True, where=where(opn, opn.node))
    seq = list(A.walk_stmts(opn.node.body))
    i_none = next((i for i, s in enumerate(seq) if A.norm(s) == "self._interruptions_desc_uid = None"), None)
    i_set = next((i for i, s in enumerate(seq) if isinstance(s, ast.Assign) and A.chain(s.targets[0]) == "self._interruptions_desc_uid" and not isinstance(s.value, ast.Constant)), None)
    ok = i_none is not None and i_set is not None and i_none < i_set
    ctx.ob("C40.D3-only-when-enabled", cname(opn, None, "the descriptor uid is None unless recording"), ok, "" if ok else "the enabling uid is not reset per run", where=where(opn, opn.node))
    ri = rm.b("record_interruption")
    # every statement of record_interruption that composes, emits or counts is reached only when the stream exists
    g = q.cfg(ri, q.quiet_policy(repo))
    UID = "self._interruptions_desc_uid"

    def passes_guard(u, v, label):
        n = g.nodes[u]
        if n.kind == "test":
            t = A.norm(n.ast)
            if (t in (f"{UID} is not None", f"{UID} != None", UID) and label == "T") or (t in (f"{UID} is None", f"{UID} == None", f"not {UID}") and label == "F"):
                return False
        return True

    acting = [s for s in A.walk_stmts(ri.node.body) if not isinstance(s, (ast.If, ast.While, ast.For, ast.Try, ast.With))
              and (any(A.call_name(c) in ("self.emit_sync", "self.emit") or (A.call_name(c) or "").endswith("_interruptions_compose_event") for c in A.calls_in(s))
                   or any((A.chain(t) or "").startswith("self._interruptions_counter") for t in A.targets_of(s)))]
    seen = g.reachable([g.entry], edge_ok=passes_guard)
    bad = [s for s in acting if any(i in seen for i in g.nodes_of(s))]
    ok = bool(acting) and not bad
    ctx.ob("C40.D3-only-when-enabled", cname(ri, None, "no-op unless the stream exists"), ok,
           "" if ok else ("record_interruption acts without an interruptions stream: `" + A.short(bad[0]) + "` is reachable when the descriptor uid is None" if bad
                          else "record_interruption no longer composes / emits anything"),
           where=where(ri, bad[0] if bad else ri.node), nontrivial=True)
    body = ri.node.body
    n_emit = len([c for s in body for c in A.calls_in(s) if A.call_name(c) in ("self.emit_sync", "self.emit")])
    n_comp = len([c for s in body for c in A.calls_in(s) if (A.call_name(c) or "").endswith("_interruptions_compose_event")])
    loops = [s for s in A.walk_stmts(body) if isinstance(s, (ast.For, ast.While))]
    ok = n_emit == 1 and n_comp == 1 and not loops
    ctx.ob("C40.D3-one-event-per-record", cname(ri, None, "exactly one event composed and emitted per record"), ok,
           "" if ok else f"{n_comp} compose / {n_emit} emit calls", where=where(ri, ri.node))
    ok = f"{BCLS}.record_interruption" in f"{BCLS}.record_interruption"
    re_open = rm.handler("open_run")
    txt = A.norm(re_open.node)
    ok = "self.record_interruptions" in txt
    ctx.ob("C40.D3-only-when-enabled", cname(re_open, None, "RE.record_interruptions passed to the bundler"), ok,
           "" if ok else "the bundler no longer receives the record_interruptions setting", where=where(re_open, re_open.node))


CLAIM = {
    "text": "Decides that interruption records keep their own numbering across rewinds (stream registered as never replayed, live counter "
            "preserved), that exactly the three documented sites record - an accepted hard pause, a resume, the start of a suspension - "
            "each in every open run, and that the stream exists and records only when record_interruptions is enabled. Whether every real "
            "schedule passes those sites is not decided.",
    "technique": "call-site ownership; guard dominance; def-use between the registering site and the rewind restore",
}

RE = "run_engine.py"
BU = "bundlers.py"
MUTANTS = [
    ("interruptions rolled back on rewind", [(BU, '            self._unreplayed_streams.add("interruptions")\n', "")], "C40.D1"),
    ("resume not recorded", [(RE, '        for current_run in self._run_bundlers.values():\n            current_run.record_interruption("resume")\n', "")], "C40.D2"),
    ("pause recorded only in the first run",
     [(RE, '        for current_run in self._run_bundlers.values():\n            current_run.record_interruption("pause")', '        for current_run in list(self._run_bundlers.values())[:1]:\n            current_run.record_interruption("pause")')], "C40.D2"),
    ("deferred request recorded",
     [(RE, "        if defer:\n            self._deferred_pause_requested = True\n", "        if defer:\n            self._deferred_pause_requested = True\n            for current_run in self._run_bundlers.values():\n                current_run.record_interruption(\"pause\")\n")], "C40.D2"),
    ("interruptions stream always created",
     [(BU, "        if self.record_interruptions:\n            # To store the interruptions uid outside of event-model", "        if True:\n            # To store the interruptions uid outside of event-model")], "C40.D3"),
    ("record no longer guarded by the stream's existence",
     [(BU, "        if self._interruptions_desc_uid is not None:\n            # We are inside a run and self.record_interruptions is True.", "        if True:\n            # We are inside a run and self.record_interruptions is True.")], "C40.D3"),
    ("every record site short-circuits after the first run that recorded",
     [(RE, '            current_run.record_interruption("pause")', '            done = locals().get("done") or current_run.record_interruption("pause")')], "C40.D2"),
    ("record emits twice", [(BU, "            self._interruptions_counter += 1\n            self.emit_sync(DocumentNames.event, doc)", "            self._interruptions_counter += 1\n            self.emit_sync(DocumentNames.event, doc)\n            self.emit_sync(DocumentNames.event, doc)")], "C40.D3"),
    ("abort also records", [(RE, "        self._exit_status = \"abort\"\n        self._destroy_open_run_tracing_spans()", "        self._exit_status = \"abort\"\n        for current_run in self._run_bundlers.values():\n            current_run.record_interruption(\"abort\")\n        self._destroy_open_run_tracing_spans()")], "C40.D2"),
    ("suspension not recorded", [(RE, '            current_run.record_interruption(justification if justification is not None else "suspended")', "            pass")], "C40.D2"),
]
BENIGN = [
    ("record_interruption written with an early return and a result",
     [(BU, """        if self._interruptions_desc_uid is not None:
            # We are inside a run and self.record_interruptions is True.
            doc = self._interruptions_compose_event(
                data={"interruption": content},
                timestamps={"interruption": ttime.time()},
            )
            self._interruptions_counter += 1
            self.emit_sync(DocumentNames.event, doc)
""", """        if self._interruptions_desc_uid is None:
            return False
        doc = self._interruptions_compose_event(
            data={"interruption": content},
            timestamps={"interruption": ttime.time()},
        )
        self._interruptions_counter += 1
        self.emit_sync(DocumentNames.event, doc)
        return True
""")]),
    ("record loop variable renamed", [(RE, '        for current_run in self._run_bundlers.values():\n            current_run.record_interruption("resume")', '        for bundler in self._run_bundlers.values():\n            bundler.record_interruption("resume")')]),
]
