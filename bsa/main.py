from __future__ import annotations

import argparse
import importlib
import json
import os
import sys
import traceback

from .loader import AnalysisError, Repo
from .report import Ctx, finish

LEVELS = {"C22": "proof", "C30": "proof"}


def run_property(prop: str, tier: str, seed: int, only_rule: str | None = None) -> int:
    try:
        mod = importlib.import_module(f"bsa.rules.{prop.lower()}")
    except ModuleNotFoundError:
        print(f"ANALYSIS-ERROR property={prop} no rule module (property not claimed)")
        return 2
    ctx = None
    try:
        repo = Repo(full_normalise=True if tier == "thorough" else None)
        ctx = Ctx(prop, tier, repo, level=LEVELS.get(prop, "other"))
        mod.run(ctx)
        if tier == "thorough":
            try:
                from . import selftest
            except ImportError:
                selftest = None
            if selftest is not None:
                selftest.run_for(ctx, mod)
        return finish(ctx, seed)
    except AnalysisError as e:
        print(f"ANALYSIS-ERROR property={prop} {e}")
        # obligations that already failed are concrete, whatever could not be analysed afterwards: report them
        try:
            from .report import load_known

            known = {(k["rule"], k["construct"]) for k in load_known() if k.get("property") == prop}
            if ctx is not None and any(not o["ok"] and (o["rule"], o["construct"]) not in known for o in ctx.obligations):
                ctx.infos.append(f"analysis incomplete: {e}")
                finish(ctx, seed)
                return 1
        except AnalysisError:
            pass
        return 2
    except Exception:  # a crash of the analyser is never a violation
        tb = traceback.format_exc()
        print(f"ANALYSIS-ERROR property={prop} internal error in the analyser:\n{tb}")
        return 2


def main(argv) -> int:
    ap = argparse.ArgumentParser(prog="check")
    ap.add_argument("prop")
    ap.add_argument("--tier", default=os.environ.get("VERIF_TIER") or "quick", choices=["quick", "thorough"])
    ap.add_argument("--replay", default=None)
    a = ap.parse_args(argv)
    try:
        seed = int(os.environ.get("VERIF_SEED", "0"))
    except ValueError:
        seed = 0
    if a.replay:
        with open(a.replay) as f:
            rp = json.load(f)
        print(f"replaying {rp.get('rule')} on {rp.get('construct')} against the current tree")
        rc = run_property(rp.get("property", a.prop), a.tier, seed)
        return rc
    if a.prop == "all":
        worst = 0
        props = sorted(
            f[:-3].upper() for f in os.listdir(os.path.join(os.path.dirname(__file__), "rules"))
            if f.startswith("c") and f.endswith(".py")
        )
        for p in props:
            worst = max(worst, run_property(p, a.tier, seed))
        return worst
    return run_property(a.prop.upper(), a.tier, seed)
