"""A1 on the tail of RunEngine._run: which cleanup steps every exit path must have completed.

Shared by C01.D1 (runs closed), C06.D1 (devices cleaned up), C07.D2 (state returns to idle),
C08.D3 (await windows after the loop)."""

from __future__ import annotations

import ast

from . import astutil as A
from . import cfg as C
from .idioms import cname, where
from .loader import AnalysisError
from .re_model import REModel, final_entry_nodes

OTEL_TOTAL = {".set_attribute", ".end", "tracer.start_span", "trace.get_current_span", "_set_span_msg_attributes"}


class RunTail:
    def __init__(self, rm: REModel):
        self.rm = rm
        self.pol = rm.policy(extra_total=OTEL_TOTAL)
        self.g = C.build(rm.run, self.pol)
        self.fin = rm.outer_try.finalbody
        self.fin_entries = final_entry_nodes(self.g, rm.outer_try)
        if not self.fin_entries:
            raise AnalysisError("no copy of the finally of RunEngine._run was built")
        # the entry write: self._state = "running" directly inside the outer try
        self.entry_write = None
        for s in rm.outer_try.body:
            if rm.is_state_write(s, "running"):
                self.entry_write = s
        if self.entry_write is None:
            raise AnalysisError("anchor vanished: self._state = 'running' at the top of _run's try")

    # -- anchors inside the finally (by role)
    def fin_stmt(self, pred, what):
        hits = [s for s in A.walk_stmts(self.fin) if pred(s)]
        if not hits:
            raise AnalysisError(f"anchor vanished: {what} in the finally of RunEngine._run")
        return hits

    def loops_calling(self, method: str):
        return [s for s in A.walk_stmts(self.fin) if isinstance(s, (ast.For, ast.AsyncFor))
                and (A.method_calls(s, method) or A.find_calls(s, method))]

    def escapes(self, is_cut, starts=None):
        """Edges into a function exit reachable from the start of the cleanup without crossing a
        cut edge.  -> list of (node, label, witness_path)."""
        g = self.g
        starts = starts if starts is not None else self.fin_entries

        def edge_ok(u, v, label):
            return not is_cut(g.nodes[u], label, g.nodes[v])

        seen = g.reachable(starts, edge_ok=edge_ok)
        out = []
        for ex in (g.exit, g.raise_exit):
            for p, label in g.pred[ex]:
                if p in seen and edge_ok(p, ex, label):
                    path = g.path_to(seen, p)
                    out.append((g.nodes[p], label, path + [f"--{label}--> {g.nodes[ex].label}"]))
        return out

    def check_must_complete(self, ctx, rule: str, what: str, is_cut, starts=None, tag: str = ""):
        """One obligation per copy of the finally; one failing obligation per distinct escaping edge."""
        esc = self.escapes(is_cut, starts)
        tag = f" skips: {tag}" if tag else ""
        bad = {}
        for node, label, path in esc:
            kind = label[1] if isinstance(label, tuple) else str(label)
            key = (A.head(node.stmt) if node.stmt is not None else node.label, kind)
            bad.setdefault(key, (node, path))
        for (stmt_head, kind), (node, path) in sorted(bad.items()):
            ctx.ob(rule, f"{self.rm.run.key}:{stmt_head} [{kind}]{tag}", False,
                   f"an exit of _run is reachable without {what}: {kind} leaving `{stmt_head}` ends the coroutine first",
                   nontrivial=True, witness=path[-8:], where=where(self.rm.run, node.stmt))
        ctx.ob(rule, f"{self.rm.run.key}:all other paths from the cleanup entry{tag}", True,
               f"every remaining path from the {len(self.fin_entries)} copies of the finally to an exit completes: {what}",
               nontrivial=True)
        return not bad
