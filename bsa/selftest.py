"""Checker self-test (thorough tier): run a property's rules on edited scratch copies of the package.

* MUTANTS: one rule instance broken (guard deleted, release dropped, literal changed, ...).  The
  edited package must still compile; the named rule must report a finding that is not in the
  known-findings file.
* BENIGN: behaviour-preserving edits (renames, reordering of independent statements, extra logging).
  The rules must stay silent (no new finding) and must not hit an ANALYSIS-ERROR.  Every property
  also gets six whole-package rewrites (bsa/variants.py): ast round trip (layout), a logging call at
  the start of every statement list, reworded / added docstrings, every local variable renamed, every if/else with its branches swapped
  under the negated test, and every pure comparison mirrored.

Edits are exact-once text substitutions on a copy of /repo/src/bluesky made under tempfile.mkdtemp()
(outside /repo and /verif) and removed before exit.  The copy is only parsed, never imported or run.
A mutant whose anchor text no longer occurs exactly once is reported as 'stale' (the self-test needs
refreshing) - it is never counted as killed.
"""

from __future__ import annotations

import ast
import os
import shutil
import tempfile
from concurrent.futures import ProcessPoolExecutor

from .loader import PKG_REL, REPO, AnalysisError, Repo
from .report import Ctx, load_known


def _apply(root: str, edits) -> str | None:
    """edits: list of (relative file under src/bluesky, old, new).  Returns error text or None."""
    for rel, old, new in edits:
        path = os.path.join(root, PKG_REL, rel)
        with open(path) as f:
            src = f.read()
        n = src.count(old)
        if n != 1:
            return f"anchor text occurs {n} times in {rel}"
        src = src.replace(old, new)
        try:
            ast.parse(src)
            compile(src, path, "exec")
        except SyntaxError as e:
            return f"edited {rel} does not compile: {e}"
        with open(path, "w") as f:
            f.write(src)
    return None


def _run_variant(args):
    prop, modname, name, edits, expect, kind = args
    import importlib

    tmp = tempfile.mkdtemp(prefix="bsa_selftest_")
    try:
        dst = os.path.join(tmp, PKG_REL)
        shutil.copytree(os.path.join(REPO, PKG_REL), dst, ignore=shutil.ignore_patterns("tests", "__pycache__", "*.pyc"))
        if isinstance(edits, str) and edits.startswith("global:"):
            from .variants import rewrite_tree

            rewrite_tree(edits.split(":", 1)[1], dst)
            err = None
        else:
            err = _apply(tmp, edits)
        if err:
            return (name, kind, "stale", err, [])
        mod = importlib.import_module(modname)
        ctx = None
        try:
            repo = Repo(tmp)
            ctx = Ctx(prop, "quick", repo)
            mod.run(ctx)
            ctx.check_minimums()
        except AnalysisError as e:
            # as in bsa.main: obligations that already failed are reported even when the analysis could not be completed
            known = {(k["rule"], k["construct"]) for k in load_known() if k.get("property") == prop}
            new = list(dict.fromkeys((o["rule"], o["construct"]) for o in (ctx.obligations if ctx is not None else []) if not o["ok"] and (o["rule"], o["construct"]) not in known))
            hit = [x for x in new if any(x[0].startswith(p) for p in expect)]
            if kind == "mutant" and hit:
                return (name, kind, "killed", f"(analysis incomplete: {e})", new[:6])
            return (name, kind, "analysis-error", str(e), new[:6])
        known = {(k["rule"], k["construct"]) for k in load_known() if k.get("property") == prop}
        new = [(o["rule"], o["construct"]) for o in ctx.obligations if not o["ok"] and (o["rule"], o["construct"]) not in known]
        new = list(dict.fromkeys(new))
        if kind == "mutant":
            hit = [x for x in new if any(x[0].startswith(e) for e in expect)]
            return (name, kind, "killed" if hit else "survived", "", new[:6])
        return (name, kind, "silent" if not new else "alarm", "", new[:6])
    except Exception as e:  # pragma: no cover
        import traceback

        return (name, kind, "analysis-error", traceback.format_exc()[-800:], [])
    finally:
        shutil.rmtree(tmp, ignore_errors=True)


def run_for(ctx: Ctx, mod, workers: int = 16):
    mutants = getattr(mod, "MUTANTS", [])
    benign = getattr(mod, "BENIGN", [])
    if not mutants and not benign:
        ctx.extra["selftest"] = "no variants registered for this property"
        return
    jobs = []
    for m in mutants:
        name, edits, expect = m
        jobs.append((ctx.prop, mod.__name__, name, edits, [expect] if isinstance(expect, str) else list(expect), "mutant"))
    for b in benign:
        name, edits = b
        jobs.append((ctx.prop, mod.__name__, name, edits, [], "benign"))
    from .variants import GLOBAL_VARIANTS

    for v in GLOBAL_VARIANTS:
        benign = list(benign) + [(f"whole package: {v}", f"global:{v}")]
        jobs.append((ctx.prop, mod.__name__, f"whole package rewritten: {v}", f"global:{v}", [], "benign"))
    with ProcessPoolExecutor(max_workers=min(workers, len(jobs))) as ex:
        results = list(ex.map(_run_variant, jobs))
    killed = [r for r in results if r[2] == "killed"]
    silent = [r for r in results if r[2] == "silent"]
    problems = [r for r in results if r[2] not in ("killed", "silent")]
    ctx.extra["selftest"] = {
        "mutants_total": len(mutants), "mutants_killed": len(killed),
        "benign_total": len(benign), "benign_silent": len(silent),
        "results": [{"name": r[0], "kind": r[1], "result": r[2], "note": r[3], "reported": r[4][:3]} for r in results],
    }
    for r in problems:
        print(f"SELFTEST property={ctx.prop} variant={r[0]!r} kind={r[1]} result={r[2]} {r[3]} reported={r[4][:3]}")
    print(f"SELFTEST property={ctx.prop}: {len(killed)}/{len(mutants)} mutants killed, {len(silent)}/{len(benign)} benign variants silent")
