"""Path-sensitive typestate for try/except/else/finally-like plan wrappers (C22, used by C23).

The wrapper generator is interpreted on its CFG.  *Atoms* are the ``yield from`` statements of the wrapped
plan (PLAN), the except plan (EXCEPT), the else plan (ELSE), the final plan (FINAL) and ``pause()`` (PAUSE).
How the wrapped plan ends is injected at the PLAN atom: it returns, or raises GeneratorExit (the wrapper was
closed), an Exception, or another BaseException (modelled by KeyboardInterrupt).  The EXCEPT and ELSE atoms
complete normally or let an Exception escape (thrown in by the RunEngine, or raised by the handler plan);
FINAL and PAUSE complete normally.  Abstract state: (outcome of PLAN, cleanup flag, how often each atom ran, boolean parameters)."""

from __future__ import annotations

import ast
from collections import namedtuple

from . import astutil as A
from . import cfg as C

OUTCOMES = ("GeneratorExit", "Exception", "KeyboardInterrupt")
# hexc: an Exception escaped the except plan / else plan (thrown in by the RunEngine or raised by that plan)
S = namedtuple("S", "outcome cleanup final exc els pause params hexc", defaults=(False,))  # params: frozenset of (name, bool)


class WrapPolicy(C.Policy):
    def __init__(self, hier, plan_name, handler_names=()):
        super().__init__(hier, calls_raise=False, await_kinds=(), yield_kinds=())
        self.plan_name = plan_name
        self.handler_names = tuple(n for n in handler_names if n)

    def raises(self, node):
        out = set()
        if node is None:
            return out
        for n in A.walk_local(node):
            if isinstance(n, ast.YieldFrom) and isinstance(n.value, ast.Name) and n.value.id == self.plan_name:
                out.update(OUTCOMES)
            # the except / else plans are plans too: the RunEngine can throw into them (stop / abort) and they can fail
            if isinstance(n, ast.YieldFrom) and isinstance(n.value, ast.Call) and (A.call_name(n.value) or "") in self.handler_names:
                out.add("Exception")
        return out


def atom_of(stmt, roles) -> str | None:
    """roles: {'plan': name, 'except': name, 'else': name, 'final': {names}}"""
    if stmt is None or isinstance(stmt, (ast.If, ast.Try, ast.For, ast.While, ast.With, ast.FunctionDef)):
        return None
    for n in A.walk_local(stmt):
        if isinstance(n, ast.YieldFrom):
            v = n.value
            if isinstance(v, ast.Name) and v.id == roles["plan"]:
                return "PLAN"
            if isinstance(v, ast.Call):
                cn = A.call_name(v) or ""
                if cn == roles.get("except"):
                    return "EXCEPT"
                if cn == roles.get("else"):
                    return "ELSE"
                if cn in roles.get("final", ()) or (cn == "ensure_generator" and v.args and A.norm(v.args[0]) in roles.get("final", ())):
                    return "FINAL"
                if cn.split(".")[-1] == "pause":
                    return "PAUSE"
                return "OTHER"
            return "OTHER"
        if isinstance(n, ast.Yield):
            return "OTHER"
    return None


class WrapperModel:
    def __init__(self, repo, hier, func, roles, bool_params):
        self.func, self.roles, self.bool_params = func, roles, bool_params
        self.g = C.build(func, WrapPolicy(hier, roles["plan"], (roles.get("except"), roles.get("else"))))
        self.atoms = {}
        for n in self.g.nodes:
            if n.kind in ("stmt", "return") and n.stmt is not None:
                a = atom_of(n.stmt, roles)
                if a:
                    self.atoms[n.id] = a

    def assume(self, test, st: S, truth: bool):
        t = A.norm(test)
        params = dict(st.params)
        if isinstance(test, ast.UnaryOp) and isinstance(test.op, ast.Not):
            return self.assume(test.operand, st, not truth)
        if isinstance(test, ast.BoolOp):
            is_and = isinstance(test.op, ast.And)
            if is_and == truth:
                cur = [st]
                for v in test.values:
                    cur = [s2 for s in cur for s2 in self.assume(v, s, truth)]
                return cur
            out, prefix = [], [st]
            for v in test.values:
                for s in prefix:
                    out.extend(self.assume(v, s, truth))
                prefix = [s2 for s in prefix for s2 in self.assume(v, s, not truth)]
            return list(dict.fromkeys(out))
        if t in params:
            return [st] if params[t] == truth else []
        return [st]

    def flow(self, node, st: S, label, dst):
        is_exc = isinstance(label, tuple) and label[0] == "exc"
        if node.kind == "test" and label in ("T", "F"):
            return self.assume(node.ast, st, label == "T")
        a = self.atoms.get(node.id)
        if a == "PLAN":
            if is_exc:
                return [st._replace(outcome=label[1])]
            return [st._replace(outcome="returned")]
        if is_exc and a in ("EXCEPT", "ELSE"):
            # the handler plan started and an Exception left it
            return [(st._replace(exc=min(st.exc + 1, 2)) if a == "EXCEPT" else st._replace(els=min(st.els + 1, 2)))._replace(hexc=True)]
        if is_exc:
            return [st]
        if a == "FINAL":
            return [st._replace(final=min(st.final + 1, 2))]
        if a == "EXCEPT":
            return [st._replace(exc=min(st.exc + 1, 2))]
        if a == "ELSE":
            return [st._replace(els=min(st.els + 1, 2))]
        if a == "PAUSE":
            return [st._replace(pause=min(st.pause + 1, 2))]
        s = node.stmt
        # any local flag assigned True / False is tracked exactly (the "run the cleanup" flag, whatever it is called and whichever
        # polarity it has); a flag assigned anything else becomes unknown
        if node.kind == "stmt" and isinstance(s, ast.Assign) and len(s.targets) == 1 and isinstance(s.targets[0], ast.Name):
            name = s.targets[0].id
            p = {k: v for k, v in st.params if k != name}
            if isinstance(s.value, ast.Constant) and isinstance(s.value.value, bool):
                p[name] = s.value.value
                return [st._replace(params=frozenset(p.items()))]
            if name in dict(st.params) and name not in self.bool_params:
                return [st._replace(params=frozenset(p.items()))]
        return [st]

    def run(self):
        import itertools
        results = []
        for combo in itertools.product([True, False], repeat=len(self.bool_params)):
            params = frozenset(zip(self.bool_params, combo))
            init = S("none", None, 0, 0, 0, 0, params)
            IN = C.solve(self.g, [init], self.flow)
            exits = []
            for p, label in self.g.pred[self.g.exit]:
                for st in IN.get(p, ()):
                    for s2 in self.flow(self.g.nodes[p], st, label, self.g.nodes[self.g.exit]):
                        exits.append(("return", self.g.nodes[p], s2))
            for p, label in self.g.pred[self.g.raise_exit]:
                for st in IN.get(p, ()):
                    for s2 in self.flow(self.g.nodes[p], st, label, self.g.nodes[self.g.raise_exit]):
                        k = label[1] if isinstance(label, tuple) else "AssertionError"
                        exits.append((("raise", k), self.g.nodes[p], s2))
            # states right before each FINAL atom (ordering obligations)
            before_final = []
            for nid, a in self.atoms.items():
                if a == "FINAL":
                    before_final.extend(IN.get(nid, ()))
            results.append((dict(params), exits, before_final))
        return results
