"""bsa - bluesky static analyser (pure ``ast``; nothing in /repo is imported or run)."""
