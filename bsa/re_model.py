"""Anchors of bluesky.run_engine resolved by role (never by line or frozen text)."""

from __future__ import annotations

import ast
from functools import cached_property

from . import astutil as A
from . import cfg as C
from .idioms import REPolicy, cname, where
from .loader import AnalysisError, Repo

MOD = "bluesky.run_engine"
CLS = "RunEngine"
BMOD = "bluesky.bundlers"
BCLS = "RunBundler"


class REModel:
    def __init__(self, repo: Repo):
        self.repo = repo
        self.mod = repo.module(MOD)
        self.cls = repo.cls(MOD, CLS)
        self.hier = C.Hier(repo)

    def m(self, name: str):
        return self.repo.func(MOD, f"{CLS}.{name}")

    def b(self, name: str):
        return self.repo.func(BMOD, f"{BCLS}.{name}")

    def policy(self, **kw) -> REPolicy:
        return REPolicy(self.repo, self.hier, (MOD, CLS), **kw)

    # ------------------------------------------------------------------ state machine
    @cached_property
    def sm(self):
        c = self.repo.cls(MOD, "RunEngineStateMachine")
        states, transitions, checkers = None, None, {}
        for n in ast.walk(c.node):
            if isinstance(n, ast.ClassDef) and n.name == "States":
                states = [s.value.value for s in n.body if isinstance(s, ast.Assign) and isinstance(s.value, ast.Constant)
                          and isinstance(s.value.value, str)]
            if isinstance(n, ast.ClassDef) and n.name == "Meta":
                for s in n.body:
                    if isinstance(s, ast.Assign) and A.chain(s.targets[0]) == "transitions" and isinstance(s.value, ast.Dict):
                        transitions = {}
                        for k, v in zip(s.value.keys, s.value.values):
                            ks, vs = A.const_str(k), A.str_elts(v)
                            if ks is None or vs is None:
                                raise AnalysisError("RunEngineStateMachine.Meta.transitions is not a literal table")
                            transitions[ks] = vs
                    if isinstance(s, ast.Assign) and A.chain(s.targets[0]) == "named_checkers" and isinstance(s.value, (ast.List, ast.Tuple)):
                        for e in s.value.elts:
                            pr = A.str_elts(e)
                            if pr and len(pr) == 2:
                                checkers[pr[0]] = pr[1]
        if not states or transitions is None:
            raise AnalysisError("anchor vanished: RunEngineStateMachine States / Meta.transitions")
        return {"states": states, "transitions": transitions, "checkers": checkers}

    # ------------------------------------------------------------------ registry
    @cached_property
    def registry(self) -> dict[str, str]:
        init = self.m("__init__")
        for s in A.walk_stmts(init.node.body):
            if isinstance(s, ast.Assign) and A.chain(s.targets[0]) == "self._command_registry" and isinstance(s.value, ast.Dict):
                out = {}
                for k, v in zip(s.value.keys, s.value.values):
                    ks, vs = A.const_str(k), A.chain(v)
                    if ks is None or vs is None or not vs.startswith("self."):
                        raise AnalysisError("command registry entry is not 'name': self._method")
                    out[ks] = vs[5:]
                return out
        raise AnalysisError("anchor vanished: self._command_registry literal in RunEngine.__init__")

    def handler(self, command: str):
        name = self.registry.get(command)
        if name is None:
            raise AnalysisError(f"anchor vanished: command {command!r} not in the registry")
        return self.m(name)

    @cached_property
    def uncacheable(self) -> list[str]:
        for s in self.cls.node.body:
            if isinstance(s, (ast.Assign, ast.AnnAssign)) and A.chain(s.targets[0] if isinstance(s, ast.Assign) else s.target) == "_UNCACHEABLE_COMMANDS":
                val = s.value
                # frozenset({...}) / set([...]) / tuple((...)) / list(...) around a literal collection of strings
                while isinstance(val, ast.Call) and A.call_name(val) in ("frozenset", "set", "tuple", "list", "sorted") and len(val.args) == 1 and not val.keywords:
                    val = val.args[0]
                v = A.str_elts(val)
                if v is None:
                    raise AnalysisError("_UNCACHEABLE_COMMANDS is not a literal collection of strings")
                return v
        raise AnalysisError("anchor vanished: RunEngine._UNCACHEABLE_COMMANDS")

    # ------------------------------------------------------------------ _run anatomy
    @cached_property
    def run(self):
        return self.m("_run")

    @cached_property
    def outer_try(self) -> ast.Try:
        for s in self.run.node.body:
            if isinstance(s, ast.Try) and s.finalbody and any(isinstance(x, ast.While) for x in s.body):
                return s
        raise AnalysisError("anchor vanished: the try/.../finally of RunEngine._run that contains the message loop")

    @cached_property
    def loop(self) -> ast.While:
        for x in self.outer_try.body:
            if isinstance(x, ast.While):
                return x
        raise AnalysisError("anchor vanished: the while loop of RunEngine._run")

    @cached_property
    def inner_try(self) -> ast.Try:
        for x in self.loop.body:
            if isinstance(x, ast.Try) and x.finalbody:
                return x
        raise AnalysisError("anchor vanished: the inner try/finally of the message loop")

    @cached_property
    def pause_block(self) -> ast.If:
        """``if not self._run_permit.is_set():`` inside the loop."""
        for x in self.loop.body:
            if isinstance(x, ast.If) and "self._run_permit.is_set" in A.norm(x.test):
                return x
        raise AnalysisError("anchor vanished: the pause block (if not self._run_permit.is_set()) of _run")

    def run_cfg(self, **kw) -> C.CFG:
        return C.build(self.run, self.policy(**kw))

    def state_writes(self, func_node):
        """[(stmt, literal)] for ``self._state = '<literal>'`` in the function (not nested defs)."""
        out = []
        for s in A.walk_stmts(func_node.body):
            if isinstance(s, (ast.Assign, ast.AugAssign, ast.AnnAssign)):
                for t in A.targets_of(s):
                    if A.chain(t) == "self._state":
                        lit = A.const_str(getattr(s, "value", None))
                        out.append((s, lit))
        return out

    def is_state_write(self, stmt, literal=None) -> bool:
        if isinstance(stmt, ast.Assign) and any(A.chain(t) == "self._state" for t in stmt.targets):
            return literal is None or A.const_str(stmt.value) == literal
        return False


def final_entry_nodes(g: C.CFG, try_stmt: ast.Try) -> list[int]:
    """Entry (join) nodes of every copy of the finally of ``try_stmt``."""
    return [n.id for n in g.nodes if n.kind == "join" and n.stmt is try_stmt and n.label.startswith("finally[")]
