"""Exact evaluation of tiny bookkeeping methods over small integers (no repo code runs).

For methods whose whole effect is (a) arithmetic / boolean updates of a few instance attributes guarded by
comparisons of those attributes with constants and (b) loops that call one method on every element of a
collection ("effects"), the method body is interpreted statement by statement on a concrete attribute
valuation.  Rules then enumerate all call words up to a bound and compare with a reference counter.
Anything outside that fragment raises AnalysisError (the rule does not apply to the new shape)."""

from __future__ import annotations

import ast
import operator

from . import astutil as A
from .loader import AnalysisError

_CMP = {ast.Lt: operator.lt, ast.LtE: operator.le, ast.Gt: operator.gt, ast.GtE: operator.ge, ast.Eq: operator.eq, ast.NotEq: operator.ne,
        ast.Is: operator.is_, ast.IsNot: operator.is_not}
_BIN = {ast.Add: operator.add, ast.Sub: operator.sub, ast.Mult: operator.mul}


class _Return(Exception):
    pass


def _expr(e, state):
    if isinstance(e, ast.Constant):
        return e.value
    ch = A.chain(e)
    if ch and ch.startswith("self.") and ch.count(".") == 1:
        if ch[5:] not in state:
            raise AnalysisError(f"miniexec: attribute {ch} has no known initial value")
        return state[ch[5:]]
    if isinstance(e, ast.Name) and ("local", e.id) in state:
        return state[("local", e.id)]
    if isinstance(e, ast.UnaryOp) and isinstance(e.op, ast.Not):
        return not _expr(e.operand, state)
    if isinstance(e, ast.UnaryOp) and isinstance(e.op, ast.USub):
        return -_expr(e.operand, state)
    if isinstance(e, ast.BoolOp):
        vals = [_expr(v, state) for v in e.values]
        return all(vals) if isinstance(e.op, ast.And) else any(vals)
    if isinstance(e, ast.BinOp) and type(e.op) in _BIN:
        return _BIN[type(e.op)](_expr(e.left, state), _expr(e.right, state))
    if isinstance(e, ast.Compare):
        left = _expr(e.left, state)
        for op, c in zip(e.ops, e.comparators):
            right = _expr(c, state)
            if type(op) not in _CMP or not _CMP[type(op)](left, right):
                if type(op) not in _CMP:
                    raise AnalysisError(f"miniexec: unsupported comparison {A.short(e)}")
                return False
            left = right
        return True
    if isinstance(e, ast.Call) and A.call_name(e) in ("max", "min") and not e.keywords:
        vals = [_expr(a, state) for a in e.args]
        return max(vals) if A.call_name(e) == "max" else min(vals)
    raise AnalysisError(f"miniexec: unsupported expression `{A.short(e, 70)}`")


def _block(body, state, effects, effect_methods):
    for s in body:
        if isinstance(s, ast.Pass) or (isinstance(s, ast.Expr) and isinstance(s.value, ast.Constant)):
            continue
        if isinstance(s, ast.Return):
            raise _Return()
        if isinstance(s, ast.If):
            _block(s.body if _expr(s.test, state) else s.orelse, state, effects, effect_methods)
            continue
        if isinstance(s, (ast.Assign, ast.AugAssign)):
            tgt = s.targets[0] if isinstance(s, ast.Assign) else s.target
            ch = A.chain(tgt)
            if isinstance(tgt, ast.Name):
                # a local of the method: kept beside the attributes under a ("local", name) key
                if isinstance(s, ast.Assign):
                    state[("local", tgt.id)] = _expr(s.value, state)
                else:
                    if type(s.op) not in _BIN:
                        raise AnalysisError(f"miniexec: unsupported operator in `{A.short(s, 70)}`")
                    state[("local", tgt.id)] = _BIN[type(s.op)](_expr(tgt, state), _expr(s.value, state))
                continue
            if not (ch and ch.startswith("self.") and ch.count(".") == 1):
                raise AnalysisError(f"miniexec: unsupported assignment target in `{A.short(s, 70)}`")
            if isinstance(s, ast.Assign):
                state[ch[5:]] = _expr(s.value, state)
            else:
                if type(s.op) not in _BIN:
                    raise AnalysisError(f"miniexec: unsupported operator in `{A.short(s, 70)}`")
                state[ch[5:]] = _BIN[type(s.op)](_expr(tgt, state), _expr(s.value, state))
            continue
        if isinstance(s, (ast.For, ast.AsyncFor)):
            hit = [m for m in effect_methods if A.method_calls(s, m)]
            if hit:
                effects.extend(hit)
                continue
        if isinstance(s, ast.Expr) and isinstance(s.value, (ast.Call, ast.Await)):
            c = s.value.value if isinstance(s.value, ast.Await) else s.value
            if isinstance(c, ast.Call) and isinstance(c.func, ast.Attribute) and c.func.attr in effect_methods:
                effects.append(c.func.attr)
                continue
        raise AnalysisError(f"miniexec: statement outside the bookkeeping fragment: `{A.short(s, 80)}`")


def run_method(func_node, state: dict, effect_methods) -> list[str]:
    """Interpret the method on `state` (mutated in place).  -> the effects executed, in order."""
    effects: list[str] = []
    try:
        _block(func_node.body, state, effects, tuple(effect_methods))
    except _Return:
        pass
    for k in [k for k in state if isinstance(k, tuple) and k[0] == "local"]:
        del state[k]  # locals do not outlive the call
    return effects


# ---------------------------------------------------------------------------------------------
# Straight-line blocks over local integers and small dicts of integers (used for index bookkeeping)

def _lexpr(e, env):
    if isinstance(e, ast.Constant):
        return e.value
    if isinstance(e, ast.Name):
        if e.id not in env:
            raise AnalysisError(f"miniexec: local `{e.id}` has no value")
        return env[e.id]
    if isinstance(e, ast.Subscript) and isinstance(e.slice, ast.Constant):
        return _lexpr(e.value, env)[e.slice.value]
    if isinstance(e, ast.UnaryOp) and isinstance(e.op, ast.Not):
        return not _lexpr(e.operand, env)
    if isinstance(e, ast.UnaryOp) and isinstance(e.op, ast.USub):
        return -_lexpr(e.operand, env)
    if isinstance(e, ast.BoolOp):
        vals = [_lexpr(v, env) for v in e.values]
        return all(vals) if isinstance(e.op, ast.And) else any(vals)
    if isinstance(e, ast.BinOp) and type(e.op) in _BIN:
        return _BIN[type(e.op)](_lexpr(e.left, env), _lexpr(e.right, env))
    if isinstance(e, ast.Compare):
        left = _lexpr(e.left, env)
        for op, c in zip(e.ops, e.comparators):
            right = _lexpr(c, env)
            if type(op) not in _CMP:
                raise AnalysisError(f"miniexec: unsupported comparison {A.short(e)}")
            if not _CMP[type(op)](left, right):
                return False
            left = right
        return True
    if isinstance(e, ast.Call):
        cn = A.call_name(e)
        if cn == "sum" and len(e.args) == 1 and isinstance(e.args[0], ast.Call) and isinstance(e.args[0].func, ast.Attribute) and e.args[0].func.attr == "values":
            return sum(_lexpr(e.args[0].func.value, env).values())
        if cn in ("max", "min") and not e.keywords:
            vals = [_lexpr(a, env) for a in e.args]
            return max(vals) if cn == "max" else min(vals)
    if isinstance(e, ast.Tuple):
        return tuple(_lexpr(x, env) for x in e.elts)
    raise AnalysisError(f"miniexec: unsupported expression `{A.short(e, 70)}`")


def run_local_block(stmts, env: dict) -> None:
    """Interpret assignments / augmented assignments / ifs over local ints and dicts of ints; env is mutated."""
    for s in stmts:
        if isinstance(s, ast.Pass) or (isinstance(s, ast.Expr) and isinstance(s.value, ast.Constant)):
            continue
        if isinstance(s, ast.If):
            run_local_block(s.body if _lexpr(s.test, env) else s.orelse, env)
            continue
        if isinstance(s, (ast.Assign, ast.AugAssign)):
            tgt = s.targets[0] if isinstance(s, ast.Assign) else s.target
            val = _lexpr(s.value, env)
            if isinstance(s, ast.AugAssign):
                if type(s.op) not in _BIN:
                    raise AnalysisError(f"miniexec: unsupported operator in `{A.short(s, 70)}`")
                val = _BIN[type(s.op)](_lexpr(tgt, env), val)
            if isinstance(tgt, ast.Name):
                env[tgt.id] = val
            elif isinstance(tgt, ast.Subscript) and isinstance(tgt.slice, ast.Constant):
                _lexpr(tgt.value, env)[tgt.slice.value] = val
            elif isinstance(tgt, ast.Tuple) and isinstance(val, tuple) and all(isinstance(t, ast.Name) for t in tgt.elts):
                for t, v in zip(tgt.elts, val):
                    env[t.id] = v
            else:
                raise AnalysisError(f"miniexec: unsupported assignment target in `{A.short(s, 70)}`")
            continue
        raise AnalysisError(f"miniexec: statement outside the bookkeeping fragment: `{A.short(s, 80)}`")
