"""A3 - stack-height abstract interpretation.

Domain: d = len(plan stack) - len(response stack) as a small integer (TOP outside [-3, 3]) x
``resp`` in {sentinel, popped, unknown}.  Transfer functions for .append / .pop on the two named
deques, assignment of the sentinel, and refinement on ``resp is (not) sentinel``."""

from __future__ import annotations

import ast

from . import astutil as A
from . import cfg as C

TOP = 99


def _clip(d):
    return d if -3 <= d <= 3 else TOP


class StackHeights:
    def __init__(self, g: C.CFG, plan="self._plan_stack", resp="self._response_stack", var="resp", sentinel="sentinel"):
        self.g, self.plan, self.resp, self.var, self.sentinel = g, plan, resp, var, sentinel

    def effect(self, stmt, st):
        d, r = st
        if stmt is None or not isinstance(stmt, ast.AST):
            return st
        # evaluation order inside one statement: calls in source order
        calls = sorted(A.calls_in(stmt), key=lambda c: (getattr(c, "end_lineno", 0), getattr(c, "end_col_offset", 0)))
        for c in calls:
            cn = A.call_name(c) or ""
            if d != TOP:
                if cn == f"{self.plan}.append":
                    d = _clip(d + 1)
                elif cn == f"{self.plan}.pop":
                    d = _clip(d - 1)
                elif cn == f"{self.resp}.append":
                    d = _clip(d - 1)
                elif cn == f"{self.resp}.pop":
                    d = _clip(d + 1)
        if isinstance(stmt, ast.Assign) and len(stmt.targets) == 1 and isinstance(stmt.targets[0], ast.Name) and stmt.targets[0].id == self.var:
            if isinstance(stmt.value, ast.Name) and stmt.value.id == self.sentinel:
                r = "sentinel"
            elif isinstance(stmt.value, ast.Call) and A.call_name(stmt.value) == f"{self.resp}.pop":
                r = "popped"
            else:
                r = "unknown"
        return (d, r)

    def flow(self, node: C.Node, st, label, dst):
        is_exc = isinstance(label, tuple) and label[0] == "exc"
        if node.kind == "test" and label in ("T", "F"):
            t = node.ast
            if isinstance(t, ast.Compare) and len(t.ops) == 1 and isinstance(t.left, ast.Name) and t.left.id == self.var \
                    and isinstance(t.comparators[0], ast.Name) and t.comparators[0].id == self.sentinel:
                is_not = isinstance(t.ops[0], ast.IsNot)
                truth = label == "T"
                want_sentinel = (truth and not is_not) or (not truth and is_not)
                d, r = st
                if r == "sentinel" and not want_sentinel:
                    return []
                if r == "popped" and want_sentinel:
                    return []
                return [(d, "sentinel" if want_sentinel else ("popped" if r != "unknown" else "popped"))]
            return [st]
        if is_exc:
            return [st]  # the statement did not complete
        if node.kind in ("stmt", "return", "iter", "with_enter") and node.ast is not None:
            return [self.effect(node.ast, st)]
        return [st]

    def solve(self, init=(0, "unknown")):
        return C.solve(self.g, [init], self.flow)
