"""Repo idioms shared by the rules: which calls are total, callee exception summaries,
sentinel-walrus lookups, construct naming."""

from __future__ import annotations

import ast

from . import astutil as A
from . import cfg as C
from .loader import AnalysisError, Func, Repo

# Calls that are treated as not raising.  Suffix entries start with '.', others are full
# dotted callee names.  Each group carries its justification; the list is printed in evidence.
TOTAL_CALLS = {
    # builtins on values of known shape
    "print", "len", "list", "tuple", "set", "dict", "deque", "object", "isinstance", "hasattr", "callable",
    "type", "count", "bool", "id", "str", "repr", "getattr", "enumerate", "reversed", "sorted", "iter", "range",
    "frozenset", "zip", "any", "all", "min", "max", "sum", "abs", "float", "int", "super", "defaultdict",
    # logging never propagates handler errors (logging.raiseExceptions only prints)
    ".debug", ".info", ".warning", ".error", ".exception", ".critical", "debug", "warn", "warnings.warn",
    "sys.stdout.flush",
    # container / Event / Task methods that cannot fail on the receiver kinds used
    ".append", ".appendleft", ".add", ".discard", ".values", ".items", ".keys", ".is_set", ".get", ".extend",
    ".update", ".copy", ".setdefault", ".cancel", ".done", ".locked",
    "self._run_permit.set", "self._run_permit.clear", "self._blocking_event.set", "self._blocking_event.clear",
    "self._pardon_failures.set", "self._run_bundlers.clear", "self._groups.clear", "self._status_objs.clear",
    "self._metadata_per_call.clear", "self._staged.clear", "self._objs_seen.clear",
    "self._movable_objs_touched.clear", "self._run_start_uids.clear", "self._temp_callback_ids.clear",
    # pops / removes: emptiness is the subject of the stack-height rule (A3) or the loop iterates a copy
    ".pop", ".popleft", ".remove",
    # constructors of plain records / repo exception classes
    "Msg", "FailedPause", "RequestAbort", "RequestStop", "PlanHalt", "InvalidCommand", "IllegalMessageSequence",
    "TransitionError", "RunEngineInterrupted", "FailedStatus", "ValueError", "RuntimeError", "KeyError",
    "TypeError", "single_gen", "ensure_generator", "current_task", "asyncio.Event", "threading.Event",
    "time.time", "ttime.time", "uuid.uuid4", "new_uid", "functools.partial", "partial",
}

# awaited library coroutines that can only be left by cancellation
CANCEL_ONLY_AWAITS = {"asyncio.sleep", "self._run_permit.wait", "asyncio.Event.wait"}


class REPolicy(C.Policy):
    """Exception policy for RunEngine / RunBundler code.

    * ``await X``: CancelledError, plus what the resolved callee lets escape (summary), plus
      Exception when the callee is unresolved (device / library code);
    * plain calls: Exception unless total (table above) or the resolved callee's summary says so;
    * receivers: ``self`` -> the class under analysis, ``current_run`` / ``run`` -> RunBundler.
    """

    def __init__(self, repo: Repo, hier: C.Hier, self_cls=("bluesky.run_engine", "RunEngine"), depth=3,
                 inject_cancel=True, extra_total=()):
        super().__init__(hier, total_calls=set(TOTAL_CALLS) | set(extra_total))
        self.repo = repo
        self.self_cls = self_cls
        self.depth = depth
        self.inject_cancel = inject_cancel
        self._summaries: dict[str, frozenset] = {}
        self._stack: list[str] = []
        self.opaque: set[str] = set()
        self.resolved: set[str] = set()

    def for_class(self, mod, cls):
        p = REPolicy(self.repo, self.hier, (mod, cls), self.depth, self.inject_cancel)
        p.total_calls = self.total_calls
        p._summaries = self._summaries
        p._stack = self._stack
        p.opaque = self.opaque
        p.resolved = self.resolved
        return p

    # -- callee resolution
    def resolve(self, call: ast.Call) -> Func | None:
        cn = A.call_name(call)
        if cn is None:
            return None
        parts = cn.split(".")
        if len(parts) == 2 and parts[0] == "self":
            mod, cls = self.self_cls
            key = f"{mod}:{cls}.{parts[1]}"
            return self.repo.funcs.get(key)
        if len(parts) == 2 and parts[0] in ("current_run", "run", "bundler"):
            return self.repo.funcs.get(f"bluesky.bundlers:RunBundler.{parts[1]}")
        if len(parts) == 1:
            mod = self.self_cls[0]
            return self.repo.funcs.get(f"{mod}:{parts[0]}")
        return None

    def summary(self, f: Func) -> frozenset:
        """Exception kinds that can escape ``f`` (computed on f's own CFG, recursively)."""
        if f.key in self._summaries:
            return self._summaries[f.key]
        if f.key in self._stack or len(self._stack) >= self.depth:
            return frozenset({"Exception"} | ({"CancelledError"} if f.is_async else set()))
        self._stack.append(f.key)
        try:
            pol = self
            if f.cls is not None or "." in f.qualname:
                clsname = f.qualname.split(".")[0]
                pol = self.for_class(f.module.name, clsname)
            g = C.build(f, pol)
            kinds = set()
            reach = g.reachable([g.entry])
            for p, label in g.pred[g.raise_exit]:
                if p in reach and isinstance(label, tuple) and label[0] in ("exc", "reraise"):
                    kinds.add(label[1])
                elif p in reach and label == "F":
                    kinds.add("AssertionError")
        finally:
            self._stack.pop()
        self._summaries[f.key] = frozenset(kinds)
        return self._summaries[f.key]

    def raises(self, node):
        out: set[str] = set()
        if node is None:
            return out
        awaited_calls = set()
        if isinstance(node, ast.Assign) and any(A.chain(t) == "self._state" for t in node.targets):
            out.add("TransitionError")  # the checking setter refuses transitions outside the table
        for n in A.walk_local(node):
            if isinstance(n, ast.Await):
                if self.inject_cancel:
                    out.add("CancelledError")
                v = n.value
                if isinstance(v, ast.Call):
                    awaited_calls.add(id(v))
                    cn = A.call_name(v)
                    if cn in CANCEL_ONLY_AWAITS:
                        continue
                    f = self.resolve(v)
                    if f is not None:
                        self.resolved.add(f.key)
                        s = set(self.summary(f))
                        if not self.inject_cancel:
                            s.discard("CancelledError")
                        out |= s
                    else:
                        self.opaque.add(cn or A.short(v, 40))
                        out.add("Exception")
                else:
                    out.add("Exception")
            elif isinstance(n, (ast.Yield, ast.YieldFrom)):
                out.update(self.yield_kinds)
        for n in A.walk_local(node):
            if isinstance(n, ast.Call) and id(n) not in awaited_calls:
                if self._call_is_total(n):
                    continue
                f = self.resolve(n)
                if f is not None and not f.is_async and not A.has_yield(f.node):
                    self.resolved.add(f.key)
                    out |= set(self.summary(f))
                elif f is not None:
                    # creating a coroutine / generator object does not run it
                    continue
                else:
                    self.opaque.add(A.call_name(n) or A.short(n, 40))
                    out.add("Exception")
        return out


def cname(func: Func, node, role: str = "") -> str:
    """Stable construct identity: module:qualname:<normalised statement header or role>."""
    tail = role or (A.head(node) if node is not None else "")
    return f"{func.key}:{tail}"


def where(func: Func, node) -> str:
    ln = getattr(node, "lineno", None)
    rel = func.module.path
    return f"{rel}:{int(ln)}" if ln else rel


def sentinel_lookup(test: ast.AST, prev: ast.stmt | None = None):
    """Recognise ``(x := D.get(K, s := object())) is s`` / ``is not s`` - also with the sentinel being a name bound elsewhere, and
    with the lookup written as the statement ``x = D.get(K, s)`` right before ``if x is s:`` (pass that statement as ``prev``).
    Returns (var, container_chain, key_node, 'absent'|'present') or None."""
    if not (isinstance(test, ast.Compare) and len(test.ops) == 1 and isinstance(test.ops[0], (ast.Is, ast.IsNot))):
        return None
    left, right = test.left, test.comparators[0]
    var = None
    if isinstance(left, ast.NamedExpr) and isinstance(left.value, ast.Call):
        call, var = left.value, left.target.id
    elif isinstance(left, ast.Name) and isinstance(prev, ast.Assign) and len(prev.targets) == 1 and isinstance(prev.targets[0], ast.Name) \
            and prev.targets[0].id == left.id and isinstance(prev.value, ast.Call):
        call, var = prev.value, left.id
    else:
        return None
    if not (isinstance(call.func, ast.Attribute) and call.func.attr == "get" and len(call.args) == 2 and not call.keywords):
        return None
    sent = call.args[1]
    sent_name = sent.target.id if isinstance(sent, ast.NamedExpr) else sent.id if isinstance(sent, ast.Name) else None
    if sent_name is None or not (isinstance(right, ast.Name) and right.id == sent_name) or sent_name in ("None", "True", "False"):
        return None
    return (var, A.chain(call.func.value), call.args[0],
            "absent" if isinstance(test.ops[0], ast.Is) else "present")


def prev_siblings(func_node) -> dict:
    """statement -> the statement right before it in its block"""
    out = {}
    for n in ast.walk(func_node):
        for fld in ("body", "orelse", "finalbody"):
            bl = getattr(n, fld, None)
            if isinstance(bl, list) and bl and isinstance(bl[0], ast.stmt):
                for a, b in zip(bl, bl[1:]):
                    out[b] = a
    return out


def find_stmt(func: Func, pred, what: str):
    """The unique statement of ``func`` (not nested defs) satisfying pred; AnalysisError if absent."""
    hits = [s for s in A.walk_stmts(func.node.body) if pred(s)]
    if not hits:
        raise AnalysisError(f"anchor vanished: {what} in {func.key}")
    return hits


def self_attr_writes(func_node, attr: str | None = None):
    """(stmt, attrname, kind) for every write to ``self.<attr>`` in the function (not nested defs):
    kind in assign / augassign / del / mutate(method)."""
    out = []
    for s in A.walk_stmts(func_node.body):
        for t in A.targets_of(s):
            ch = A.chain(t)
            if ch and ch.startswith("self.") and ch.count(".") == 1:
                out.append((s, ch[5:], "augassign" if isinstance(s, ast.AugAssign) else "assign"))
            elif isinstance(t, ast.Subscript):
                ch = A.chain(t.value)
                if ch and ch.startswith("self.") and ch.count(".") == 1:
                    out.append((s, ch[5:], "setitem"))
        if isinstance(s, ast.Delete):
            for t in s.targets:
                base = t.value if isinstance(t, ast.Subscript) else t
                ch = A.chain(base)
                if ch and ch.startswith("self.") and ch.count(".") == 1:
                    out.append((s, ch[5:], "delitem" if isinstance(t, ast.Subscript) else "del"))
        if isinstance(s, (ast.Expr, ast.Assign, ast.AugAssign, ast.AnnAssign, ast.Return, ast.If, ast.While, ast.For,
                          ast.With, ast.Assert, ast.Raise)):
            # mutating method calls in the statement's own expressions
            exprs = []
            if isinstance(s, (ast.If, ast.While)):
                exprs = [s.test]
            elif isinstance(s, ast.For):
                exprs = [s.iter]
            elif isinstance(s, ast.With):
                exprs = [i.context_expr for i in s.items]
            else:
                exprs = [s]
            for e in exprs:
                for c in A.calls_in(e):
                    if isinstance(c.func, ast.Attribute) and c.func.attr in A.MUTATORS:
                        ch = A.chain(c.func.value)
                        if ch and ch.startswith("self.") and ch.count(".") == 1:
                            out.append((s, ch[5:], "mutate:" + c.func.attr))
    if attr is not None:
        out = [o for o in out if o[1] == attr]
    return out
