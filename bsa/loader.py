"""Parse /repo/src/bluesky on every run and index modules / classes / functions.

Nothing from the repository is imported or executed; only ``ast.parse`` is applied to
the files of the current working tree.
"""

from __future__ import annotations

import ast
import hashlib
import os
from dataclasses import dataclass, field

REPO = os.environ.get("BSA_REPO", "/repo")
PKG_REL = os.path.join("src", "bluesky")

# directories that are not part of the analysed program
_SKIP_DIRS = {"tests", "__pycache__"}


class AnalysisError(Exception):
    """The analysis cannot give a verdict (vanished anchor, unsupported shape, too few
    rule instances).  Mapped to exit code 2 / ``ANALYSIS-ERROR`` - never to a violation."""


@dataclass
class Module:
    name: str  # dotted, e.g. bluesky.run_engine
    path: str
    src: str
    tree: ast.Module
    sha256: str


@dataclass
class Func:
    module: Module
    qualname: str  # Class.method.inner
    node: ast.AST  # FunctionDef / AsyncFunctionDef
    cls: "Cls | None" = None
    parent: "Func | None" = None

    @property
    def key(self) -> str:
        return f"{self.module.name}:{self.qualname}"

    @property
    def is_async(self) -> bool:
        return isinstance(self.node, ast.AsyncFunctionDef)

    @property
    def name(self) -> str:
        return self.node.name


@dataclass
class Cls:
    module: Module
    qualname: str
    node: ast.ClassDef
    methods: dict = field(default_factory=dict)

    @property
    def key(self) -> str:
        return f"{self.module.name}:{self.qualname}"

    @property
    def base_names(self) -> list[str]:
        out = []
        for b in self.node.bases:
            try:
                out.append(ast.unparse(b))
            except Exception:  # pragma: no cover
                pass
        return out


def strip_inert(tree: ast.AST) -> int:
    """Remove, inside function bodies, the statements no rule may depend on (astutil.inert: docstrings, pass,
    logging / print / warnings.warn calls with plain arguments).  Every rule then sees the same program
    whether or not such statements are added, moved or reworded.  Line numbers of the remaining nodes are kept."""
    from . import astutil as A

    n = 0
    for fn in ast.walk(tree):
        if not isinstance(fn, (ast.FunctionDef, ast.AsyncFunctionDef)):
            continue
        for node in ast.walk(fn):
            for fld in ("body", "orelse", "finalbody"):
                lst = getattr(node, fld, None)
                if not (isinstance(lst, list) and lst and isinstance(lst[0], ast.stmt)) or isinstance(node, ast.ClassDef):
                    continue
                keep = [st for st in lst if not (A.inert(st) and not any(isinstance(x, (ast.NamedExpr, ast.Await, ast.Yield, ast.YieldFrom)) for x in ast.walk(st)))]
                if len(keep) != len(lst):
                    n += len(lst) - len(keep)
                    if not keep and fld == "body":
                        keep = [ast.copy_location(ast.Pass(), lst[0])]
                    setattr(node, fld, keep)
    return n


class Repo:
    def __init__(self, root: str | None = None, full_normalise: bool | None = None):
        self.root = root or REPO
        self.full_normalise = bool(os.environ.get("BSA_FULL_NORMALISE")) if full_normalise is None else full_normalise
        self.identical = 0  # modules byte-identical to the reference (normaliser skipped unless full_normalise)
        self.pkg = os.path.join(self.root, PKG_REL)
        if not os.path.isdir(self.pkg):
            raise AnalysisError(f"package directory {self.pkg} not found")
        self.modules: dict[str, Module] = {}
        self.normalised: dict = {}  # constants substituted / helpers inlined / guard clauses put back (bsa/normalize.py)
        self.reshaped = 0  # if/else polarity and comparison operand order put back into the recorded form (bsa/alpha.py)
        self.renamed: list = []  # (function, {current local name: name used by the rules}) - see bsa/alpha.py
        self.funcs: dict[str, Func] = {}
        self.classes: dict[str, Cls] = {}
        self.consulted: set[str] = set()
        self._load()

    # ------------------------------------------------------------------ loading
    def _load(self):
        from . import normalize as _nz
        pre = []
        for dirpath, dirnames, filenames in os.walk(self.pkg):
            dirnames[:] = sorted(d for d in dirnames if d not in _SKIP_DIRS)
            for fn in sorted(filenames):
                if fn.endswith(".py"):
                    try:
                        with open(os.path.join(dirpath, fn), "rb") as f:
                            pre.append(ast.parse(f.read().decode("utf-8")))
                    except (SyntaxError, UnicodeDecodeError):
                        pass
        _nz.REBOUND_ATTRS = _nz.collect_rebound_attrs(pre)
        for dirpath, dirnames, filenames in os.walk(self.pkg):
            dirnames[:] = sorted(d for d in dirnames if d not in _SKIP_DIRS)
            for fn in sorted(filenames):
                if not fn.endswith(".py"):
                    continue
                path = os.path.join(dirpath, fn)
                rel = os.path.relpath(path, os.path.join(self.root, "src"))
                name = rel[:-3].replace(os.sep, ".")
                if name.endswith(".__init__"):
                    name = name[: -len(".__init__")]
                with open(path, "rb") as f:
                    raw = f.read()
                try:
                    src = raw.decode("utf-8")
                    tree = ast.parse(src, filename=path)
                except SyntaxError as e:
                    raise AnalysisError(f"cannot parse {path}: {e}") from e
                strip_inert(tree)
                from . import alpha, normalize

                sha = hashlib.sha256(raw).hexdigest()
                if normalize.ref().get("digests", {}).get(name) == sha and not self.full_normalise:
                    # byte-identical to the module the reference table was generated from: the normaliser is the identity there
                    # (that is what the self-check below establishes whenever the full pipeline runs - always in the thorough tier)
                    self.identical += 1
                    m = Module(name, path, src, tree, sha)
                    self.modules[name] = m
                    self._index(m, tree, prefix="", cls=None, parent=None)
                    continue
                st = normalize.normalise_module(tree, name)
                if any(st.values()):
                    strip_inert(tree)
                # first only the renames whose binding signature identifies the old name (a positional guess here could turn a new
                # temporary into a "known" name before the temporaries pass has had its chance)
                for _round in range(3):
                    got = alpha.normalise(tree, name, strict=True)
                    self.renamed.extend(got)
                    if not got:
                        break
                st["temporaries"] = normalize.normalise_temporaries(tree, name)
                for _round in range(3):
                    got = alpha.normalise(tree, name)
                    self.renamed.extend(got)
                    if not got:
                        break
                st["guards"] = normalize.normalise_guards(tree, name)
                for k, v in st.items():
                    self.normalised[k] = self.normalised.get(k, 0) + v
                n_shapes = alpha.canonicalise_shapes(tree, name)
                self.reshaped += n_shapes
                # the normaliser only ever rewrites towards the reference form, so on a module that is byte-identical to the one
                # the reference table was generated from it must be the identity - checked on every run
                sha = hashlib.sha256(raw).hexdigest()
                if normalize.ref().get("digests", {}).get(name) == sha and (any(st.values()) or n_shapes or any(k.startswith(name + ":") for k, _m in self.renamed)):
                    raise AnalysisError(f"internal: the normaliser rewrote {name} although it is identical to the reference it was generated from "
                                        f"({ {k: v for k, v in st.items() if v} }, shapes {n_shapes})")
                m = Module(name, path, src, tree, hashlib.sha256(raw).hexdigest())
                self.modules[name] = m
                self._index(m, tree, prefix="", cls=None, parent=None)

    def _index(self, m, node, prefix, cls, parent):
        for child in ast.iter_child_nodes(node):
            if isinstance(child, (ast.FunctionDef, ast.AsyncFunctionDef)):
                q = prefix + child.name
                f = Func(m, q, child, cls=cls if isinstance(node, ast.ClassDef) else None, parent=parent)
                key = f"{m.name}:{q}"
                # property getter/setter pairs share a name: keep both (setter gets suffix)
                if key in self.funcs:
                    deco = [ast.unparse(d) for d in child.decorator_list]
                    suffix = ".setter" if any(d.endswith(".setter") for d in deco) else ".dup"
                    q2 = q + suffix
                    f.qualname = q2
                    key = f"{m.name}:{q2}"
                self.funcs[key] = f
                if isinstance(node, ast.ClassDef) and cls is not None:
                    cls.methods[f.qualname.split(".", 1)[-1] if "." in f.qualname else f.qualname] = f
                self._index(m, child, q + ".", None, f)
            elif isinstance(child, ast.ClassDef):
                q = prefix + child.name
                c = Cls(m, q, child)
                self.classes[f"{m.name}:{q}"] = c
                self._index(m, child, q + ".", c, parent)
            elif isinstance(child, (ast.If, ast.Try, ast.With, ast.For, ast.While)):
                # defs nested in module-level / class-level control flow (try/except ImportError ...)
                self._index(m, child, prefix, cls, parent)
            elif isinstance(child, ast.ExceptHandler):
                self._index(m, child, prefix, cls, parent)

    # ------------------------------------------------------------------ lookup
    def module(self, name: str) -> Module:
        m = self.modules.get(name)
        if m is None:
            raise AnalysisError(f"anchor vanished: module {name}")
        self.consulted.add(name)
        return m

    def func(self, module: str, qualname: str) -> Func:
        self.module(module)
        f = self.funcs.get(f"{module}:{qualname}")
        if f is None:
            raise AnalysisError(f"anchor vanished: function {module}:{qualname}")
        return f

    def has_func(self, module: str, qualname: str) -> bool:
        return f"{module}:{qualname}" in self.funcs

    def cls(self, module: str, qualname: str) -> Cls:
        self.module(module)
        c = self.classes.get(f"{module}:{qualname}")
        if c is None:
            raise AnalysisError(f"anchor vanished: class {module}:{qualname}")
        return c

    def methods_of(self, module: str, clsname: str) -> dict[str, Func]:
        c = self.cls(module, clsname)
        out = {}
        pre = f"{module}:{clsname}."
        for k, f in self.funcs.items():
            if k.startswith(pre):
                rest = k[len(pre):]
                if "." not in rest or rest.endswith(".setter"):
                    out[rest] = f
        return out

    def funcs_in(self, module: str) -> list[Func]:
        self.module(module)
        pre = module + ":"
        return [f for k, f in self.funcs.items() if k.startswith(pre)]

    def all_funcs(self, exclude_vendor=True):
        for k, f in self.funcs.items():
            if exclude_vendor and f.module.name.startswith("bluesky._vendor"):
                continue
            self.consulted.add(f.module.name)
            yield f

    def digests(self) -> dict[str, str]:
        return {n: self.modules[n].sha256 for n in sorted(self.consulted) if n in self.modules}

    def stats(self) -> dict:
        return {
            "modules_parsed": len(self.modules),
            "functions_indexed": len(self.funcs),
            "classes_indexed": len(self.classes),
            "locals_renamed_back": {k: m for k, m in self.renamed},
            "shapes_put_back": self.reshaped,
            "refactors_undone": dict(self.normalised),
            "modules_identical_to_reference": self.identical,
            "normaliser": "full pipeline on every module (identity self-check armed)" if self.full_normalise
            else "skipped on modules byte-identical to the reference table's digests, full pipeline on the others",
        }
