"""F-17 (C16): after `configure` of a monitored object the monitor's events still reference the OLD descriptor.

RunBundler.configure re-makes the descriptor of every stream containing the object (a new descriptor document for the
monitor stream is emitted), but monitor()'s callback captured the compose_event of the first descriptor bundle in its
closure, so every later monitor event carries the stale descriptor uid (and is numbered by the stale bundle).
Exits 0 when the events emitted after the configure reference the descriptor emitted by the configure."""
from bluesky import Msg, RunEngine
from ophyd.sim import SynAxis

docs = []
RE = RunEngine({}, context_managers=[])
RE.subscribe(lambda name, doc: docs.append((name, doc)))
m = SynAxis(name="m")
m.velocity.kind = "config"


def plan():
    yield Msg("open_run")
    yield Msg("monitor", m, name="mon")
    yield Msg("set", m, 1.0, group="g")
    yield Msg("wait", group="g")
    yield Msg("configure", m, {"velocity": 5})
    yield Msg("set", m, 2.0, group="g")
    yield Msg("wait", group="g")
    yield Msg("unmonitor", m)
    yield Msg("close_run")


RE(plan())
descs = [d for n, d in docs if n == "descriptor" and d["name"] == "mon"]
print("descriptors of the monitor stream:", len(descs))
assert len(descs) == 2, "configure did not re-make the monitor stream's descriptor"
i_second = next(i for i, (n, d) in enumerate(docs) if n == "descriptor" and d["uid"] == descs[1]["uid"])
later = [d for n, d in docs[i_second:] if n == "event" and d["descriptor"] in (descs[0]["uid"], descs[1]["uid"])]
print("monitor events after the configure:", len(later), " referencing the new descriptor:", sum(e["descriptor"] == descs[1]["uid"] for e in later))
assert later, "no monitor event after the configure"
assert all(e["descriptor"] == descs[1]["uid"] for e in later), "monitor events emitted after configure still reference the old descriptor"
print("OK")
