"""F-1 (C01/C06/C07/C08): requests accepted while RunEngine._run is finishing leave the engine unusable.

Known finding (not fixed: repairing it needs a design decision on how requests that arrive
during the epilogue are to be treated).  Each scenario prints the stuck state."""
import asyncio, threading, time
from bluesky import RunEngine, Msg
from bluesky.utils import RunEngineInterrupted


class SlowStop:
    """A movable whose stop() really awaits, so the cleanup of _run suspends there."""
    name = "slow"
    parent = None
    def __init__(self): self.stopping = threading.Event()
    def set(self, v):
        from ophyd.sim import NullStatus
        return NullStatus()
    async def stop(self, success=True):
        self.stopping.set()
        await asyncio.sleep(0.4)
    def read(self): return {}
    def describe(self): return {}
    def read_configuration(self): return {}
    def describe_configuration(self): return {}


def scenario(request):
    RE = RunEngine({}, context_managers=[])
    dev = SlowStop()
    def plan():
        yield Msg("set", dev, 1)
    def poke():
        dev.stopping.wait(5)
        time.sleep(0.05)
        try:
            request(RE)
        except Exception as e:
            print("   request raised", type(e).__name__)
    t = threading.Thread(target=poke); t.start()
    try:
        RE(plan())
        outcome = "returned normally"
    except RunEngineInterrupted:
        outcome = "RunEngineInterrupted"
    except Exception as e:
        outcome = f"raised {type(e).__name__}"
    t.join()
    time.sleep(0.6)
    return outcome, RE.state


stuck = 0
for name, req in [("request_pause", lambda RE: RE.request_pause()),
                  ("request_suspend", lambda RE: RE.request_suspend(lambda: asyncio.sleep(0)))]:
    outcome, state = scenario(req)
    print(f"{name} during cleanup: call {outcome}; engine state afterwards = {state!r}")
    stuck += state not in ("idle", "paused")

# halt() during a replay, with a user plan whose finally raises on close
RE = RunEngine({}, context_managers=[])
def bad_plan():
    try:
        yield Msg("checkpoint")
        yield Msg("sleep", None, 0.5)
        yield Msg("pause")
        yield Msg("null")
    finally:
        raise ValueError("cleanup failed")
try:
    RE(bad_plan())
except RunEngineInterrupted:
    pass
def halt_soon():
    time.sleep(0.2)
    try:
        RE.halt()
    except Exception as e:
        print("   halt raised", type(e).__name__)
t = threading.Thread(target=halt_soon); t.start()
try:
    RE.resume()        # replays the 0.5 s sleep; halt() lands inside it
except Exception as e:
    print("   resume raised", type(e).__name__)
t.join()
print("halt during a replay with a plan whose finally raises: state =", RE.state)
stuck += RE.state not in ("idle", "paused")
print("scenarios leaving the engine in a transient state:", stuck)
assert stuck == 3
