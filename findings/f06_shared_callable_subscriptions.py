"""F-6 (C18): removing one subscription must not silence another subscription of the same callable."""
from bluesky import RunEngine, Msg

docs = []
def cb(name, doc):
    docs.append(name)

RE = RunEngine({})
permanent = RE.subscribe(cb)
def plan():
    yield Msg("open_run")
    yield Msg("close_run")
RE(plan(), cb)          # the same callable as a per-call subscription
n1 = len(docs)
docs.clear()
RE(plan())              # the per-call token was dropped at the start of this call
print("documents in call 1:", n1, " in call 2:", len(docs))
assert n1 == 2, n1      # delivered once per document, not twice
assert len(docs) == 2, "the permanent subscription was silenced when the per-call one was dropped"
RE.unsubscribe(permanent)
docs.clear()
RE(plan())
assert docs == [], "still subscribed after its own token was unsubscribed"
print("OK")
