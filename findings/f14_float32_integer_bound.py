"""F-14 (C38): a numpy float32 holding exactly +-2**53 passes truncate_json_overflow unchanged.

The in-range test `1 - 2**53 <= data <= 2**53 - 1` compares a np.float32 with Python ints; numpy (NEP 50) converts the int
bound to float32, where 2**53 - 1 rounds to 2**53, so 2**53 counts as in range; the clamp `min(max(data, lo), hi)` has the
same problem.  Run with the repository's interpreter: exits 0 when every result is within +-(2**53 - 1)."""
import numpy as np

from bluesky.utils import truncate_json_overflow

LIMIT = 2**53 - 1
bad = []
for v in [np.float32(2.0**53), np.float32(-(2.0**53)), np.array([2.0**53, 1.0], dtype=np.float32), {"a": [np.float32(2.0**53)]},
          np.float64(2.0**53), 2.0**53, 2**53, np.int64(2**53), np.float32(3e20), np.float16(1024)]:
    out = truncate_json_overflow(v)
    flat = []
    def walk(x):
        if isinstance(x, dict):
            for y in x.values():
                walk(y)
        elif isinstance(x, list):
            for y in x:
                walk(y)
        else:
            flat.append(x)
    walk(out)
    for r in flat:
        if float(r) == int(r) and not (-LIMIT <= int(r) <= LIMIT):
            bad.append((repr(v), repr(r), int(r)))
for b in bad:
    print("outside +-(2**53-1):", b)
assert not bad, f"{len(bad)} integral values outside the JSON-safe range survive"
print("OK")
