"""F-4 (C11/C41): monitors are off during a suspension and subscribed exactly once after it."""
import asyncio, threading, time
from bluesky import RunEngine, Msg
from bluesky.tests.utils import DocCollector
from ophyd.sim import SynSignal, det

sig = SynSignal(name="sig", func=lambda: 1.0)
counts = []
orig_sub, orig_clear = sig.subscribe, sig.clear_sub
live = []
def sub(cb, *a, **k):
    live.append(cb); return orig_sub(cb, *a, **k)
def clear(cb, *a, **k):
    while cb in live: live.remove(cb)
    return orig_clear(cb, *a, **k)
sig.subscribe, sig.clear_sub = sub, clear

RE = RunEngine({})
during = []
def plan():
    yield Msg("open_run")
    yield Msg("monitor", sig, name="mon")
    yield Msg("checkpoint")
    fut = RE.loop.create_future()
    RE.request_suspend(lambda: fut)  # hmm: needs a factory
    def release():
        during.append(len(live))
        fut.set_result(None)
    RE.loop.call_later(0.3, release)
    yield Msg("sleep", None, 0.1)
    yield Msg("null")
    after.append(len(live))
    yield Msg("unmonitor", sig)
    yield Msg("close_run")
after = []
RE(plan())
print("subscriptions during suspension:", during, "after release:", after, "at end:", len(live))
assert during == [0], during
assert after[-1] == 1, after
assert len(live) == 0
print("OK")
