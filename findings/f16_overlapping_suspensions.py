"""F-16 (C11): with overlapping suspensions the plan resumes as soon as the LATER suspension is released, although the
earlier one is still in effect.

The helper plan of suspension 1 sits in Msg('wait_for', [fut1]) with rewinding switched off (so the message is not cached).
A second request_suspend cancels that await (state 'suspending'); the interrupted wait_for is neither replayed nor
re-issued: when helper 2 finishes, helper 1 continues past its wait although fut1 is still pending.
Exits 0 when no plan message runs before both suspensions were released."""
import asyncio
import time

from bluesky import Msg, RunEngine

RE = RunEngine({}, context_managers=[])
loop = RE.loop
t0 = time.monotonic()
released = {}
resumed_at = []


def make(name, delay):
    ev = asyncio.Event()

    def release():
        released[name] = time.monotonic() - t0
        ev.set()
    return ev, release, delay


ev1, rel1, d1 = make("first", 1.2)
ev2, rel2, d2 = make("second", 0.6)
state = {"n": 0}


def hook(msg):
    if msg.command == "null" and msg.obj == "B" and state["n"] == 0:
        state["n"] = 1
        RE.request_suspend(ev1.wait, justification="first")
        loop.call_later(d1, rel1)
    elif msg.command == "wait_for" and state["n"] == 1:
        state["n"] = 2
        RE.request_suspend(ev2.wait, justification="second")
        loop.call_later(d2, rel2)
    elif msg.command == "null" and msg.obj == "C":
        resumed_at.append(time.monotonic() - t0)


RE.msg_hook = hook


def plan():
    yield Msg("checkpoint")
    yield Msg("null", "A")
    yield Msg("null", "B")
    yield Msg("sleep", None, 0.05)
    yield Msg("null", "C")


RE(plan())
print("released:", {k: round(v, 2) for k, v in released.items()}, " plan message C executed at:", [round(t, 2) for t in resumed_at])
assert "second" in released
first_release = released.get("first")  # None: RE(...) already returned before the first suspension was released at all
assert first_release is not None and min(resumed_at) >= first_release - 0.01, (
    f"the plan ran on at t={min(resumed_at):.2f}s although the first suspension "
    + ("had not been released when RE() returned" if first_release is None else f"was only released at t={first_release:.2f}s"))
print("OK")
