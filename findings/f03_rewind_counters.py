"""F-3 (C05/C40/C41): a rewind must not roll back counters of streams that are never replayed."""
from bluesky import RunEngine, Msg
from bluesky.utils import RunEngineInterrupted
from bluesky.tests.utils import DocCollector
from ophyd.sim import det

def plan():
    yield Msg("open_run")
    yield Msg("checkpoint")
    yield Msg("create", name="primary")
    yield Msg("read", det)
    yield Msg("save")
    yield Msg("pause")
    yield Msg("checkpoint")
    yield Msg("pause")
    yield Msg("close_run")

RE = RunEngine({})
RE.record_interruptions = True
d = DocCollector()
RE.subscribe(d.insert)
for _ in range(3):
    try:
        RE(plan()) if RE.state == "idle" else RE.resume()
    except RunEngineInterrupted:
        continue
    break
assert RE.state == "idle", RE.state
start = d.start[0]["uid"]
desc = {x["name"]: x["uid"] for x in d.descriptor[start]}
seq = [e["seq_num"] for e in d.event[desc["interruptions"]]]
stop = d.stop[start]
print("interruptions seq_nums", seq, "num_events", stop["num_events"])
assert seq == list(range(1, len(seq) + 1)), seq
assert stop["num_events"]["interruptions"] == len(seq)
print("OK")
