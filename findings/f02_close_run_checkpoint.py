"""F-2 (C03/C04): pause after close_run must not replay messages of the closed run."""
from bluesky import RunEngine, Msg
from bluesky.utils import RunEngineInterrupted
from ophyd.sim import det

def plan():
    yield Msg("open_run")
    yield Msg("checkpoint")
    yield Msg("create", name="primary")
    yield Msg("read", det)
    yield Msg("save")
    yield Msg("close_run")
    yield Msg("pause")
    yield Msg("null")

RE = RunEngine({})
try:
    RE(plan())
except RunEngineInterrupted:
    pass
assert RE.state == "paused"
RE.resume()   # raised IllegalMessageSequence before the fix
assert RE.state == "idle"
print("OK")
