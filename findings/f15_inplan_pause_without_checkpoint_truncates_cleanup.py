"""F-15 (C10): Msg('pause') issued by the plan itself while no checkpoint is in effect truncates the plan's cleanup.

_request_pause_coro cancels the _run task; when the request comes from inside the task (the 'pause' command) the
cancellation is still pending when the not-resumable branch turns the pause into FailedPause / 'aborting'.  The plan's
cleanup starts, the first await delivers the stale CancelledError, the handler maps it to RequestAbort and throws that
into the cleanup: only its first message runs.  (A pause requested from outside - request_pause - is delivered at the
await where the task waits, so nothing is pending and the whole cleanup runs.)  Exits 0 when the whole cleanup ran."""
from bluesky import Msg, RunEngine
from bluesky.preprocessors import finalize_wrapper
from bluesky.utils import RunEngineInterrupted

seen = []
RE = RunEngine({}, context_managers=[])
RE.msg_hook = lambda m: seen.append((m.command, m.obj))


def cleanup():
    yield Msg("null", "c1")
    yield Msg("null", "c2")
    yield Msg("null", "c3")


def plan():
    yield Msg("open_run")
    yield Msg("clear_checkpoint")
    yield Msg("pause")
    yield Msg("null", "not reached")


try:
    RE(finalize_wrapper(plan(), cleanup()))
except RunEngineInterrupted:
    pass
ran = [o for c, o in seen if c == "null"]
print("state:", RE.state, " cleanup messages executed:", ran)
assert RE.state == "idle"
assert ran == ["c1", "c2", "c3"], f"cleanup truncated: only {ran} ran"
print("OK")
