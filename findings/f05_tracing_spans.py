"""F-5 (C42): one span per run, ended once, with that run's own exit status."""
import bluesky.run_engine as re_mod
from bluesky import RunEngine, Msg
from bluesky.utils import IllegalMessageSequence

class FakeSpan:
    def __init__(self, log): self.attrs = {}; self.ended = 0; log.append(self)
    def set_attribute(self, k, v): self.attrs[k] = v
    def end(self): self.ended += 1
class FakeTracer:
    def __init__(self): self.spans = []
    def start_span(self, name): return FakeSpan(self.spans)
    def __getattr__(self, k): return getattr(orig, k)
orig = re_mod.tracer
re_mod.tracer = ft = FakeTracer()

RE = RunEngine({})
def interleaved():
    yield Msg("open_run", run="a")
    yield Msg("open_run", run="b")
    yield Msg("close_run", run="a", exit_status="fail", reason="a failed")
    yield Msg("close_run", run="b", exit_status="success")
RE(interleaved())
by_key = {s.attrs["msg.kwargs"]: s for s in ft.spans}
a, b = ft.spans
print("a:", a.attrs.get("exit_status"), "b:", b.attrs.get("exit_status"))
assert a.attrs["exit_status"] == "fail" and b.attrs["exit_status"] == "success"
assert a.ended == 1 and b.ended == 1

# duplicate key rejected: no leaked span
ft.spans.clear()
def dup():
    yield Msg("open_run", run="a")
    try:
        yield Msg("open_run", run="a")
    except IllegalMessageSequence:
        pass
    yield Msg("close_run", run="a")
RE(dup())
print("spans after rejected duplicate:", len(ft.spans), [s.ended for s in ft.spans])
assert all(s.ended == 1 for s in ft.spans)

# run left open: closed by the engine, span ended with the engine's status
ft.spans.clear()
def left_open():
    yield Msg("open_run")
RE(left_open())
print("left open:", [(s.ended, s.attrs.get("exit_status")) for s in ft.spans])
assert [(s.ended, s.attrs.get("exit_status")) for s in ft.spans] == [(1, "success")]
print("OK")
